use chia_protocol::ProofOfSpace;
use chia_traits::Streamable;
fn main() {
    let mut b = Vec::new();
    b.extend_from_slice(&[0u8; 32]); // challenge
    b.push(0); // pool_public_key: None
    b.push(0b11); // version 1, pool contract present
    b.extend_from_slice(&[7u8; 32]); // contract puzzle hash
    let mut pk = [0u8; 48]; pk[0] = 0xc0; // infinity G1 (valid encoding)
    b.extend_from_slice(&pk);
    b.extend_from_slice(&[0, 1]); // plot_index
    b.push(2); // meta_group
    b.push(3); // strength
    b.extend_from_slice(&[0, 0, 0, 0]); // empty proof
    let r = ProofOfSpace::from_bytes(&b);
    println!("untrusted decode ok: {}", r.is_ok());
    let v = r.unwrap();
    println!("re-encode equal: {}", v.to_bytes().unwrap() == b);
    println!("quality_string: {:?}", v.quality_string());
    let res = std::panic::catch_unwind(|| v.hash());
    println!("hash() panicked: {}", res.is_err());
}
