#!/usr/bin/env python3
"""Regenerates MANIFEST.json from registry.py (claimed checks) and na.py (not applicable)."""
import json, os, sys
sys.path.insert(0, os.path.dirname(os.path.abspath(__file__)))
from registry import REGISTRY
from na import NOT_APPLICABLE, HOOK_COMMITS

checks = []
for pid in sorted(REGISTRY):
    r = REGISTRY[pid]
    checks.append({
        "property_id": pid,
        "quick_cmd": f"./check {pid} --tier quick",
        "thorough_cmd": f"./check {pid} --tier thorough",
        "evidence_file": f"evidence/{pid}.json",
        "replay_cmd_template": f"./check {pid} --replay {{path}}",
        "engine": "kani-harness-crate",
        "level_claimed": {
            "category": "proof",
            "text": r["level_text"],
            "design_ref": r.get("design_ref", "DESIGN.md §5 " + pid),
        },
        "level_note": r["level_note"],
        "technique": r.get("technique", "bounded model checking of the compiled Rust code with Kani/CBMC (SAT), symbolic inputs"),
    })
m = {
    "version": 1,
    "setup_cmd": "./check --setup",
    "hooks": {
        "guard": "--cfg chia_rs_verif",
        "enable": "RUSTFLAGS='--cfg chia_rs_verif' (set by ./check for the Kani build of /verif/kh, which has path dependencies on /repo/crates/*)",
        "baseline_off_cmd": "cd /repo && cargo nextest run --workspace --no-fail-fast --test-threads 8 --offline || cargo test --workspace --no-fail-fast --offline",
        "source_commits": HOOK_COMMITS,
        "add_only": True,
    },
    "engines": [{
        "name": "kani-harness-crate",
        "path": "kh/",
        "serves_properties": sorted(REGISTRY),
        "kind_free_text": "Kani 0.68 proof harnesses (#[kani::proof], kani::any inputs, #[kani::unwind]) over the real crates, "
                          "decided by CBMC 6.11 + CaDiCaL; driver ./check parses per-harness results, checks vacuity witnesses, "
                          "replays counterexamples natively (cargo kani playback) before reporting.",
    }],
    "checks": checks,
    "not_applicable": [{"property_id": k, "reason": v} for k, v in sorted(NOT_APPLICABLE.items()) if k not in REGISTRY],
    "notes": "Solver-based checking only. All claims are bounded; bounds, stubs and what lies outside are in each evidence file and DESIGN.md.",
}
json.dump(m, open(os.path.join(os.path.dirname(os.path.abspath(__file__)), "MANIFEST.json"), "w"), indent=1)
print("MANIFEST.json written:", len(checks), "checks,", len(m["not_applicable"]), "not applicable")
