#!/bin/bash
# dev helper: run harnesses matching a substring with the driver's flags
# usage: ./k1.sh <harness> [extra cargo-kani args]
cd /verif/kh
h=$1; shift
RUSTFLAGS='--cfg chia_rs_verif' CARGO_NET_OFFLINE=true CHIA_RS_VERIF_GEN=/verif/.work/gen \
 timeout ${KTIMEOUT:-600} cargo kani --target-dir /verif/.work/target -Z stubbing -Z unstable-options --output-format terse --harness "$h" "$@" 2>&1 \
 | grep -E "^Checking harness|^Failed Checks|^VERIFICATION|^Verification Time|cover|^Complete|^error|^ \*\* |File:|unwinding" | grep -v "^warning" | head -80
