//! Inductive-step harness infrastructure for `parse_conditions` (DESIGN.md §1.1/§8).
//!
//! The real `parse_conditions::<V>` is run on a one-condition list from a symbolic
//! pre-state. `parse_args` is replaced (Kani stub) by a function returning one fixed
//! `Condition` variant with symbolic payload, so the real opcode parsing, the real
//! cost pre-charge, the real dispatch `match` and the real arm are executed; argument
//! decoding (`parse_args` itself) is verified separately (c01 parse_args harnesses).
use crate::h::*;
use crate::spec::*;
use crate::stubs::G;
use chia_consensus::conditions::*;
use chia_consensus::consensus_constants::{ConsensusConstants, TEST_CONSTANTS};
use chia_consensus::flags::ConsensusFlags;
use chia_consensus::messages::SpendId;
use chia_consensus::opcodes::ConditionOpcode;
use chia_consensus::spend_visitor::SpendVisitor;
use chia_consensus::validation_error::{ErrorCode, ValidationErr};
use chia_protocol::Bytes32;
use clvmr::allocator::{Allocator, NodePtr};
use std::sync::Arc;

// ---- payload registers read by the parse_args stubs ---------------------------
/// second condition (for two-condition harnesses)

pub unsafe fn mk_sid(kind: u8, n1: NodePtr, n2: NodePtr, v: u64) -> SpendId {
    match kind {
        0 => SpendId::None,
        1 => SpendId::CoinId(n1),
        2 => SpendId::Parent(n1),
        3 => SpendId::Puzzle(n1),
        4 => SpendId::Amount(v),
        5 => SpendId::PuzzleAmount(n1, v),
        6 => SpendId::ParentAmount(n1, v),
        _ => SpendId::ParentPuzzle(n1, n2),
    }
}

#[macro_export]
macro_rules! pa_stub {
    ($fname:ident, $e:expr) => {
        pub fn $fname(
            _a: &clvmr::allocator::Allocator,
            _c: clvmr::allocator::NodePtr,
            _op: chia_consensus::opcodes::ConditionOpcode,
            _f: chia_consensus::flags::ConsensusFlags,
        ) -> Result<chia_consensus::conditions::Condition, chia_consensus::validation_error::ValidationErr> {
            #[allow(unused_unsafe)]
            unsafe {
                crate::stubs::G.pa_calls += 1;
                Ok($e)
            }
        }
    };
}

pa_stub!(pa_reserve_fee, Condition::ReserveFee(crate::stubs::G.p_u64));
pa_stub!(pa_create_coin, Condition::CreateCoin(crate::stubs::G.p_n1, crate::stubs::G.p_u64, crate::stubs::G.p_n2));
pa_stub!(pa_seconds_relative, Condition::AssertSecondsRelative(crate::stubs::G.p_u64));
pa_stub!(pa_seconds_absolute, Condition::AssertSecondsAbsolute(crate::stubs::G.p_u64));
pa_stub!(pa_height_relative, Condition::AssertHeightRelative(crate::stubs::G.p_u32));
pa_stub!(pa_height_absolute, Condition::AssertHeightAbsolute(crate::stubs::G.p_u32));
pa_stub!(pa_before_seconds_relative, Condition::AssertBeforeSecondsRelative(crate::stubs::G.p_u64));
pa_stub!(pa_before_seconds_absolute, Condition::AssertBeforeSecondsAbsolute(crate::stubs::G.p_u64));
pa_stub!(pa_before_height_relative, Condition::AssertBeforeHeightRelative(crate::stubs::G.p_u32));
pa_stub!(pa_before_height_absolute, Condition::AssertBeforeHeightAbsolute(crate::stubs::G.p_u32));
pa_stub!(pa_my_coin_id, Condition::AssertMyCoinId(crate::stubs::G.p_n1));
pa_stub!(pa_my_parent_id, Condition::AssertMyParentId(crate::stubs::G.p_n1));
pa_stub!(pa_my_puzzlehash, Condition::AssertMyPuzzlehash(crate::stubs::G.p_n1));
pa_stub!(pa_my_amount, Condition::AssertMyAmount(crate::stubs::G.p_u64));
pa_stub!(pa_my_birth_seconds, Condition::AssertMyBirthSeconds(crate::stubs::G.p_u64));
pa_stub!(pa_my_birth_height, Condition::AssertMyBirthHeight(crate::stubs::G.p_u32));
pa_stub!(pa_ephemeral, Condition::AssertEphemeral);
pa_stub!(pa_create_coin_ann, Condition::CreateCoinAnnouncement(crate::stubs::G.p_n1));
pa_stub!(pa_create_puzzle_ann, Condition::CreatePuzzleAnnouncement(crate::stubs::G.p_n1));
pa_stub!(pa_assert_coin_ann, Condition::AssertCoinAnnouncement(crate::stubs::G.p_n1));
pa_stub!(pa_assert_puzzle_ann, Condition::AssertPuzzleAnnouncement(crate::stubs::G.p_n1));
pa_stub!(pa_concurrent_spend, Condition::AssertConcurrentSpend(crate::stubs::G.p_n1));
pa_stub!(pa_concurrent_puzzle, Condition::AssertConcurrentPuzzle(crate::stubs::G.p_n1));
pa_stub!(pa_softfork, Condition::Softfork(crate::stubs::G.p_u64));
pa_stub!(pa_send_message, Condition::SendMessage(crate::stubs::G.p_u8, mk_sid(crate::stubs::G.p_sid, crate::stubs::G.p_n2, crate::stubs::G.p_n3, crate::stubs::G.p_u64), crate::stubs::G.p_n1));
pa_stub!(pa_receive_message, Condition::ReceiveMessage(mk_sid(crate::stubs::G.p_sid, crate::stubs::G.p_n2, crate::stubs::G.p_n3, crate::stubs::G.p_u64), crate::stubs::G.p_u8, crate::stubs::G.p_n1));
pa_stub!(pa_skip, Condition::Skip);
pa_stub!(pa_skip_relative, Condition::SkipRelativeCondition);
pa_stub!(pa_agg_sig_unsafe, Condition::AggSigUnsafe(crate::stubs::G.p_n1, crate::stubs::G.p_n2));
pa_stub!(pa_agg_sig_me, Condition::AggSigMe(crate::stubs::G.p_n1, crate::stubs::G.p_n2));
pa_stub!(pa_agg_sig_parent, Condition::AggSigParent(crate::stubs::G.p_n1, crate::stubs::G.p_n2));
pa_stub!(pa_agg_sig_puzzle, Condition::AggSigPuzzle(crate::stubs::G.p_n1, crate::stubs::G.p_n2));
pa_stub!(pa_agg_sig_amount, Condition::AggSigAmount(crate::stubs::G.p_n1, crate::stubs::G.p_n2));
pa_stub!(pa_agg_sig_puzzle_amount, Condition::AggSigPuzzleAmount(crate::stubs::G.p_n1, crate::stubs::G.p_n2));
pa_stub!(pa_agg_sig_parent_amount, Condition::AggSigParentAmount(crate::stubs::G.p_n1, crate::stubs::G.p_n2));
pa_stub!(pa_agg_sig_parent_puzzle, Condition::AggSigParentPuzzle(crate::stubs::G.p_n1, crate::stubs::G.p_n2));


// ---- the concretizing visitor -------------------------------------------------------
// CBMC cannot see the discriminant of a `Condition` that travelled through
// `Result<Condition, ValidationErr>` (nested niche layout) as a constant, so symbolic
// execution would visit all 36 arms of `match cva` (measured: 2.6 M variables, 150-400 s,
// 5 GB per harness). `parse_conditions` hands `&cva` to the visitor right before the
// match. This visitor (our own `SpendVisitor`, the trait's customization point) asserts
// -- solver-checked -- that `cva` equals the condition the harness expects and then
// stores that same value back through a typed write, which gives CBMC a constant
// discriminant. The write is the identity on values (that is what the assertion proves),
// so the code under test behaves exactly as with its own value (18 s, 0.2 M variables).

pub const K_RESERVE_FEE: u8 = 0;
pub const K_CREATE_COIN: u8 = 1;
pub const K_SECONDS_RELATIVE: u8 = 2;
pub const K_SECONDS_ABSOLUTE: u8 = 3;
pub const K_HEIGHT_RELATIVE: u8 = 4;
pub const K_HEIGHT_ABSOLUTE: u8 = 5;
pub const K_BEFORE_SECONDS_RELATIVE: u8 = 6;
pub const K_BEFORE_SECONDS_ABSOLUTE: u8 = 7;
pub const K_BEFORE_HEIGHT_RELATIVE: u8 = 8;
pub const K_BEFORE_HEIGHT_ABSOLUTE: u8 = 9;
pub const K_MY_COIN_ID: u8 = 10;
pub const K_MY_PARENT_ID: u8 = 11;
pub const K_MY_PUZZLEHASH: u8 = 12;
pub const K_MY_AMOUNT: u8 = 13;
pub const K_MY_BIRTH_SECONDS: u8 = 14;
pub const K_MY_BIRTH_HEIGHT: u8 = 15;
pub const K_EPHEMERAL: u8 = 16;
pub const K_CREATE_COIN_ANN: u8 = 17;
pub const K_CREATE_PUZZLE_ANN: u8 = 18;
pub const K_ASSERT_COIN_ANN: u8 = 19;
pub const K_ASSERT_PUZZLE_ANN: u8 = 20;
pub const K_CONCURRENT_SPEND: u8 = 21;
pub const K_CONCURRENT_PUZZLE: u8 = 22;
pub const K_SOFTFORK: u8 = 23;
pub const K_SEND_MESSAGE: u8 = 24;
pub const K_RECEIVE_MESSAGE: u8 = 25;
pub const K_SKIP: u8 = 26;
pub const K_SKIP_RELATIVE: u8 = 27;
pub const K_AGG_SIG_UNSAFE: u8 = 28;
pub const K_AGG_SIG_ME: u8 = 29;
pub const K_AGG_SIG_PARENT: u8 = 30;
pub const K_AGG_SIG_PUZZLE: u8 = 31;
pub const K_AGG_SIG_AMOUNT: u8 = 32;
pub const K_AGG_SIG_PUZZLE_AMOUNT: u8 = 33;
pub const K_AGG_SIG_PARENT_AMOUNT: u8 = 34;
pub const K_AGG_SIG_PARENT_PUZZLE: u8 = 35;

fn sid_same(s: &SpendId, kind: u8, n1: NodePtr, n2: NodePtr, v: u64) -> bool {
    match kind {
        0 => matches!(s, SpendId::None),
        1 => matches!(s, SpendId::CoinId(a) if *a == n1),
        2 => matches!(s, SpendId::Parent(a) if *a == n1),
        3 => matches!(s, SpendId::Puzzle(a) if *a == n1),
        4 => matches!(s, SpendId::Amount(x) if *x == v),
        5 => matches!(s, SpendId::PuzzleAmount(a, x) if *a == n1 && *x == v),
        6 => matches!(s, SpendId::ParentAmount(a, x) if *a == n1 && *x == v),
        _ => matches!(s, SpendId::ParentPuzzle(a, b) if *a == n1 && *b == n2),
    }
}

/// does `c` equal the expected condition (kind + payload registers)?
pub unsafe fn cond_same(c: &Condition, kind: u8) -> bool {
    match kind {
        K_RESERVE_FEE => matches!(c, Condition::ReserveFee(x) if *x == crate::stubs::G.p_u64),
        K_CREATE_COIN => matches!(c, Condition::CreateCoin(a, x, b) if *a == crate::stubs::G.p_n1 && *x == crate::stubs::G.p_u64 && *b == crate::stubs::G.p_n2),
        K_SECONDS_RELATIVE => matches!(c, Condition::AssertSecondsRelative(x) if *x == crate::stubs::G.p_u64),
        K_SECONDS_ABSOLUTE => matches!(c, Condition::AssertSecondsAbsolute(x) if *x == crate::stubs::G.p_u64),
        K_HEIGHT_RELATIVE => matches!(c, Condition::AssertHeightRelative(x) if *x == crate::stubs::G.p_u32),
        K_HEIGHT_ABSOLUTE => matches!(c, Condition::AssertHeightAbsolute(x) if *x == crate::stubs::G.p_u32),
        K_BEFORE_SECONDS_RELATIVE => matches!(c, Condition::AssertBeforeSecondsRelative(x) if *x == crate::stubs::G.p_u64),
        K_BEFORE_SECONDS_ABSOLUTE => matches!(c, Condition::AssertBeforeSecondsAbsolute(x) if *x == crate::stubs::G.p_u64),
        K_BEFORE_HEIGHT_RELATIVE => matches!(c, Condition::AssertBeforeHeightRelative(x) if *x == crate::stubs::G.p_u32),
        K_BEFORE_HEIGHT_ABSOLUTE => matches!(c, Condition::AssertBeforeHeightAbsolute(x) if *x == crate::stubs::G.p_u32),
        K_MY_COIN_ID => matches!(c, Condition::AssertMyCoinId(a) if *a == crate::stubs::G.p_n1),
        K_MY_PARENT_ID => matches!(c, Condition::AssertMyParentId(a) if *a == crate::stubs::G.p_n1),
        K_MY_PUZZLEHASH => matches!(c, Condition::AssertMyPuzzlehash(a) if *a == crate::stubs::G.p_n1),
        K_MY_AMOUNT => matches!(c, Condition::AssertMyAmount(x) if *x == crate::stubs::G.p_u64),
        K_MY_BIRTH_SECONDS => matches!(c, Condition::AssertMyBirthSeconds(x) if *x == crate::stubs::G.p_u64),
        K_MY_BIRTH_HEIGHT => matches!(c, Condition::AssertMyBirthHeight(x) if *x == crate::stubs::G.p_u32),
        K_EPHEMERAL => matches!(c, Condition::AssertEphemeral),
        K_CREATE_COIN_ANN => matches!(c, Condition::CreateCoinAnnouncement(a) if *a == crate::stubs::G.p_n1),
        K_CREATE_PUZZLE_ANN => matches!(c, Condition::CreatePuzzleAnnouncement(a) if *a == crate::stubs::G.p_n1),
        K_ASSERT_COIN_ANN => matches!(c, Condition::AssertCoinAnnouncement(a) if *a == crate::stubs::G.p_n1),
        K_ASSERT_PUZZLE_ANN => matches!(c, Condition::AssertPuzzleAnnouncement(a) if *a == crate::stubs::G.p_n1),
        K_CONCURRENT_SPEND => matches!(c, Condition::AssertConcurrentSpend(a) if *a == crate::stubs::G.p_n1),
        K_CONCURRENT_PUZZLE => matches!(c, Condition::AssertConcurrentPuzzle(a) if *a == crate::stubs::G.p_n1),
        K_SOFTFORK => matches!(c, Condition::Softfork(x) if *x == crate::stubs::G.p_u64),
        K_SEND_MESSAGE => matches!(c, Condition::SendMessage(m, s, a) if *m == crate::stubs::G.p_u8 && *a == crate::stubs::G.p_n1 && sid_same(s, crate::stubs::G.p_sid, crate::stubs::G.p_n2, crate::stubs::G.p_n3, crate::stubs::G.p_u64)),
        K_RECEIVE_MESSAGE => matches!(c, Condition::ReceiveMessage(s, m, a) if *m == crate::stubs::G.p_u8 && *a == crate::stubs::G.p_n1 && sid_same(s, crate::stubs::G.p_sid, crate::stubs::G.p_n2, crate::stubs::G.p_n3, crate::stubs::G.p_u64)),
        K_SKIP => matches!(c, Condition::Skip),
        K_SKIP_RELATIVE => matches!(c, Condition::SkipRelativeCondition),
        K_AGG_SIG_UNSAFE => matches!(c, Condition::AggSigUnsafe(a, b) if *a == crate::stubs::G.p_n1 && *b == crate::stubs::G.p_n2),
        K_AGG_SIG_ME => matches!(c, Condition::AggSigMe(a, b) if *a == crate::stubs::G.p_n1 && *b == crate::stubs::G.p_n2),
        K_AGG_SIG_PARENT => matches!(c, Condition::AggSigParent(a, b) if *a == crate::stubs::G.p_n1 && *b == crate::stubs::G.p_n2),
        K_AGG_SIG_PUZZLE => matches!(c, Condition::AggSigPuzzle(a, b) if *a == crate::stubs::G.p_n1 && *b == crate::stubs::G.p_n2),
        K_AGG_SIG_AMOUNT => matches!(c, Condition::AggSigAmount(a, b) if *a == crate::stubs::G.p_n1 && *b == crate::stubs::G.p_n2),
        K_AGG_SIG_PUZZLE_AMOUNT => matches!(c, Condition::AggSigPuzzleAmount(a, b) if *a == crate::stubs::G.p_n1 && *b == crate::stubs::G.p_n2),
        K_AGG_SIG_PARENT_AMOUNT => matches!(c, Condition::AggSigParentAmount(a, b) if *a == crate::stubs::G.p_n1 && *b == crate::stubs::G.p_n2),
        _ => matches!(c, Condition::AggSigParentPuzzle(a, b) if *a == crate::stubs::G.p_n1 && *b == crate::stubs::G.p_n2),
    }
}

/// structural equality of two parsed conditions (same kind, same payload / node identity)
pub fn cond_eq(x: &Condition, y: &Condition) -> bool {
    use Condition::*;
    match (x, y) {
        (AggSigUnsafe(a, b), AggSigUnsafe(c, d))
        | (AggSigMe(a, b), AggSigMe(c, d))
        | (AggSigParent(a, b), AggSigParent(c, d))
        | (AggSigPuzzle(a, b), AggSigPuzzle(c, d))
        | (AggSigAmount(a, b), AggSigAmount(c, d))
        | (AggSigPuzzleAmount(a, b), AggSigPuzzleAmount(c, d))
        | (AggSigParentAmount(a, b), AggSigParentAmount(c, d))
        | (AggSigParentPuzzle(a, b), AggSigParentPuzzle(c, d)) => a == c && b == d,
        (CreateCoin(a, v, h), CreateCoin(b, w, k)) => a == b && v == w && h == k,
        (ReserveFee(a), ReserveFee(b))
        | (AssertMyAmount(a), AssertMyAmount(b))
        | (AssertMyBirthSeconds(a), AssertMyBirthSeconds(b))
        | (AssertSecondsRelative(a), AssertSecondsRelative(b))
        | (AssertSecondsAbsolute(a), AssertSecondsAbsolute(b))
        | (AssertBeforeSecondsRelative(a), AssertBeforeSecondsRelative(b))
        | (AssertBeforeSecondsAbsolute(a), AssertBeforeSecondsAbsolute(b))
        | (Softfork(a), Softfork(b)) => a == b,
        (AssertMyBirthHeight(a), AssertMyBirthHeight(b))
        | (AssertHeightRelative(a), AssertHeightRelative(b))
        | (AssertHeightAbsolute(a), AssertHeightAbsolute(b))
        | (AssertBeforeHeightRelative(a), AssertBeforeHeightRelative(b))
        | (AssertBeforeHeightAbsolute(a), AssertBeforeHeightAbsolute(b)) => a == b,
        (CreateCoinAnnouncement(a), CreateCoinAnnouncement(b))
        | (CreatePuzzleAnnouncement(a), CreatePuzzleAnnouncement(b))
        | (AssertCoinAnnouncement(a), AssertCoinAnnouncement(b))
        | (AssertPuzzleAnnouncement(a), AssertPuzzleAnnouncement(b))
        | (AssertConcurrentSpend(a), AssertConcurrentSpend(b))
        | (AssertConcurrentPuzzle(a), AssertConcurrentPuzzle(b))
        | (AssertMyCoinId(a), AssertMyCoinId(b))
        | (AssertMyParentId(a), AssertMyParentId(b))
        | (AssertMyPuzzlehash(a), AssertMyPuzzlehash(b)) => a == b,
        (AssertEphemeral, AssertEphemeral) | (Skip, Skip) | (SkipRelativeCondition, SkipRelativeCondition) => true,
        _ => false,
    }
}

/// the expected condition as a fresh value
pub unsafe fn cond_build(kind: u8) -> Condition {
    match kind {
        K_RESERVE_FEE => Condition::ReserveFee(crate::stubs::G.p_u64),
        K_CREATE_COIN => Condition::CreateCoin(crate::stubs::G.p_n1, crate::stubs::G.p_u64, crate::stubs::G.p_n2),
        K_SECONDS_RELATIVE => Condition::AssertSecondsRelative(crate::stubs::G.p_u64),
        K_SECONDS_ABSOLUTE => Condition::AssertSecondsAbsolute(crate::stubs::G.p_u64),
        K_HEIGHT_RELATIVE => Condition::AssertHeightRelative(crate::stubs::G.p_u32),
        K_HEIGHT_ABSOLUTE => Condition::AssertHeightAbsolute(crate::stubs::G.p_u32),
        K_BEFORE_SECONDS_RELATIVE => Condition::AssertBeforeSecondsRelative(crate::stubs::G.p_u64),
        K_BEFORE_SECONDS_ABSOLUTE => Condition::AssertBeforeSecondsAbsolute(crate::stubs::G.p_u64),
        K_BEFORE_HEIGHT_RELATIVE => Condition::AssertBeforeHeightRelative(crate::stubs::G.p_u32),
        K_BEFORE_HEIGHT_ABSOLUTE => Condition::AssertBeforeHeightAbsolute(crate::stubs::G.p_u32),
        K_MY_COIN_ID => Condition::AssertMyCoinId(crate::stubs::G.p_n1),
        K_MY_PARENT_ID => Condition::AssertMyParentId(crate::stubs::G.p_n1),
        K_MY_PUZZLEHASH => Condition::AssertMyPuzzlehash(crate::stubs::G.p_n1),
        K_MY_AMOUNT => Condition::AssertMyAmount(crate::stubs::G.p_u64),
        K_MY_BIRTH_SECONDS => Condition::AssertMyBirthSeconds(crate::stubs::G.p_u64),
        K_MY_BIRTH_HEIGHT => Condition::AssertMyBirthHeight(crate::stubs::G.p_u32),
        K_EPHEMERAL => Condition::AssertEphemeral,
        K_CREATE_COIN_ANN => Condition::CreateCoinAnnouncement(crate::stubs::G.p_n1),
        K_CREATE_PUZZLE_ANN => Condition::CreatePuzzleAnnouncement(crate::stubs::G.p_n1),
        K_ASSERT_COIN_ANN => Condition::AssertCoinAnnouncement(crate::stubs::G.p_n1),
        K_ASSERT_PUZZLE_ANN => Condition::AssertPuzzleAnnouncement(crate::stubs::G.p_n1),
        K_CONCURRENT_SPEND => Condition::AssertConcurrentSpend(crate::stubs::G.p_n1),
        K_CONCURRENT_PUZZLE => Condition::AssertConcurrentPuzzle(crate::stubs::G.p_n1),
        K_SOFTFORK => Condition::Softfork(crate::stubs::G.p_u64),
        K_SEND_MESSAGE => Condition::SendMessage(crate::stubs::G.p_u8, mk_sid(crate::stubs::G.p_sid, crate::stubs::G.p_n2, crate::stubs::G.p_n3, crate::stubs::G.p_u64), crate::stubs::G.p_n1),
        K_RECEIVE_MESSAGE => Condition::ReceiveMessage(mk_sid(crate::stubs::G.p_sid, crate::stubs::G.p_n2, crate::stubs::G.p_n3, crate::stubs::G.p_u64), crate::stubs::G.p_u8, crate::stubs::G.p_n1),
        K_SKIP => Condition::Skip,
        K_SKIP_RELATIVE => Condition::SkipRelativeCondition,
        K_AGG_SIG_UNSAFE => Condition::AggSigUnsafe(crate::stubs::G.p_n1, crate::stubs::G.p_n2),
        K_AGG_SIG_ME => Condition::AggSigMe(crate::stubs::G.p_n1, crate::stubs::G.p_n2),
        K_AGG_SIG_PARENT => Condition::AggSigParent(crate::stubs::G.p_n1, crate::stubs::G.p_n2),
        K_AGG_SIG_PUZZLE => Condition::AggSigPuzzle(crate::stubs::G.p_n1, crate::stubs::G.p_n2),
        K_AGG_SIG_AMOUNT => Condition::AggSigAmount(crate::stubs::G.p_n1, crate::stubs::G.p_n2),
        K_AGG_SIG_PUZZLE_AMOUNT => Condition::AggSigPuzzleAmount(crate::stubs::G.p_n1, crate::stubs::G.p_n2),
        K_AGG_SIG_PARENT_AMOUNT => Condition::AggSigParentAmount(crate::stubs::G.p_n1, crate::stubs::G.p_n2),
        _ => Condition::AggSigParentPuzzle(crate::stubs::G.p_n1, crate::stubs::G.p_n2),
    }
}

/// number of `condition()` calls seen (vacuity / sequencing witness)

pub struct CV<V: SpendVisitor> {
    pub inner: V,
}

impl<V: SpendVisitor> SpendVisitor for CV<V> {
    fn new_spend(spend: &mut SpendConditions) -> Self {
        CV { inner: V::new_spend(spend) }
    }
    #[allow(invalid_reference_casting)]
    fn condition(&mut self, spend: &mut SpendConditions, c: &Condition) {
        unsafe {
            crate::stubs::G.cv_calls += 1;
            let kind = crate::stubs::G.exp_kind;
            assert!(cond_same(c, kind), "parsed condition is the one the rules derive");
            let p = c as *const Condition as usize as *mut Condition;
            // identity rewrite (see above); the old value holds no heap data except a
            // possible Arc inside SpendId::OwnedCoinId, which parse_args never produces
            std::ptr::write(p, cond_build(kind));
        }
        self.inner.condition(spend, c);
    }
    fn post_spend(&mut self, a: &Allocator, spend: &mut SpendConditions) {
        self.inner.post_spend(a, spend);
    }
    fn post_process(a: &Allocator, state: &ParseState, bundle: &mut SpendBundleConditions) -> Result<(), ValidationErr> {
        V::post_process(a, state, bundle)
    }
}

// ---- snapshot of every scalar / length of the three state objects ---------------

#[derive(Clone, Copy, PartialEq, Eq)]
pub struct Snap {
    // bundle
    pub reserve_fee: u64,
    pub height_absolute: u32,
    pub seconds_absolute: u64,
    pub before_height_absolute: Option<u32>,
    pub before_seconds_absolute: Option<u64>,
    pub cost: u64,
    pub execution_cost: u64,
    pub condition_cost: u64,
    pub removal_amount: u128,
    pub addition_amount: u128,
    pub n_agg_sig_unsafe: usize,
    pub n_spends: usize,
    pub validated_signature: bool,
    // spend
    pub coin_amount: u64,
    pub height_relative: Option<u32>,
    pub seconds_relative: Option<u64>,
    pub before_height_relative: Option<u32>,
    pub before_seconds_relative: Option<u64>,
    pub birth_height: Option<u32>,
    pub birth_seconds: Option<u64>,
    pub flags: u32,
    pub s_execution_cost: u64,
    pub s_condition_cost: u64,
    pub n_create_coin: usize,
    pub n_agg0: usize,
    pub n_agg1: usize,
    pub n_agg2: usize,
    pub n_agg3: usize,
    pub n_agg4: usize,
    pub n_agg5: usize,
    pub n_agg6: usize,
    // parse state
    pub n_announce_coin: usize,
    pub n_announce_puzzle: usize,
    pub n_assert_coin: usize,
    pub n_assert_puzzle: usize,
    pub n_messages: usize,
    pub n_assert_concurrent_spend: usize,
    pub n_assert_concurrent_puzzle: usize,
    pub n_spent_coins: usize,
    pub n_spent_puzzles: usize,
    pub n_assert_ephemeral: usize,
    pub n_assert_not_ephemeral: usize,
    pub n_pkm: usize,
    // remaining cost
    pub max_cost: u64,
}

pub fn snap(ret: &SpendBundleConditions, spend: &SpendConditions, state: &mut ParseState, max_cost: u64, n_spends: usize) -> Snap {
    let n_pkm = state.pkm_pairs.len();
    let v = state.verif_view();
    Snap {
        reserve_fee: ret.reserve_fee,
        height_absolute: ret.height_absolute,
        seconds_absolute: ret.seconds_absolute,
        before_height_absolute: ret.before_height_absolute,
        before_seconds_absolute: ret.before_seconds_absolute,
        cost: ret.cost,
        execution_cost: ret.execution_cost,
        condition_cost: ret.condition_cost,
        removal_amount: ret.removal_amount,
        addition_amount: ret.addition_amount,
        n_agg_sig_unsafe: ret.agg_sig_unsafe.len(),
        n_spends,
        validated_signature: ret.validated_signature,
        coin_amount: spend.coin_amount,
        height_relative: spend.height_relative,
        seconds_relative: spend.seconds_relative,
        before_height_relative: spend.before_height_relative,
        before_seconds_relative: spend.before_seconds_relative,
        birth_height: spend.birth_height,
        birth_seconds: spend.birth_seconds,
        flags: spend.flags,
        s_execution_cost: spend.execution_cost,
        s_condition_cost: spend.condition_cost,
        n_create_coin: spend.create_coin.len(),
        n_agg0: spend.agg_sig_me.len(),
        n_agg1: spend.agg_sig_parent.len(),
        n_agg2: spend.agg_sig_puzzle.len(),
        n_agg3: spend.agg_sig_amount.len(),
        n_agg4: spend.agg_sig_puzzle_amount.len(),
        n_agg5: spend.agg_sig_parent_amount.len(),
        n_agg6: spend.agg_sig_parent_puzzle.len(),
        n_announce_coin: v.announce_coin.len(),
        n_announce_puzzle: v.announce_puzzle.len(),
        n_assert_coin: v.assert_coin.len(),
        n_assert_puzzle: v.assert_puzzle.len(),
        n_messages: v.messages.len(),
        n_assert_concurrent_spend: v.assert_concurrent_spend.len(),
        n_assert_concurrent_puzzle: v.assert_concurrent_puzzle.len(),
        n_spent_coins: v.spent_coins.len(),
        n_spent_puzzles: v.spent_puzzles.len(),
        n_assert_ephemeral: v.assert_ephemeral.len(),
        n_assert_not_ephemeral: v.assert_not_ephemeral.len(),
        n_pkm,
        max_cost,
    }
}

// ---- abstract condition and the effect specification -----------------------------

#[derive(Clone, Copy, PartialEq, Eq)]
pub enum AC {
    ReserveFee(u64),
    /// (amount, already present in this spend's outputs)
    CreateCoin(u64, bool),
    SecondsRelative(u64),
    SecondsAbsolute(u64),
    HeightRelative(u32),
    HeightAbsolute(u32),
    BeforeSecondsRelative(u64),
    BeforeSecondsAbsolute(u64),
    BeforeHeightRelative(u32),
    BeforeHeightAbsolute(u32),
    /// self-assertions carry "argument equals the spend's own attribute"
    MyCoinId(bool),
    MyParentId(bool),
    MyPuzzlehash(bool),
    MyAmount(u64),
    MyBirthSeconds(u64),
    MyBirthHeight(u32),
    /// set-valued effects carry "the element is already in the set"
    Ephemeral(bool),
    CreateCoinAnn(bool),
    CreatePuzzleAnn(bool),
    AssertCoinAnn(bool),
    AssertPuzzleAnn(bool),
    ConcurrentSpend(bool),
    ConcurrentPuzzle(bool),
    Softfork(u64),
    /// own-side mode (3 bits as delivered by parse_args)
    Message(u8),
    Skip,
    SkipRelative,
    /// index of the per-spend list (Snap::n_agg0..6: me, parent, puzzle, amount, puzzle_amount,
    /// parent_amount, parent_puzzle), or 7 for AGG_SIG_UNSAFE; (key valid and not infinity,
    /// unsafe message banned)
    AggSig(usize, bool, bool),
}

pub const HAS_REL: u32 = 2;
const F_DONT_VALIDATE: u32 = 0x1_0000;
const F_NO_UNKNOWN: u32 = 0x2_0000;
const F_STRICT_ARGS: u32 = 0x8_0000;
pub const F_COST_CONDITIONS: u32 = 0x80_0000;

/// The consensus cost table for a condition opcode, charged before the arguments are
/// looked at (numbers written out independently of opcodes.rs).
pub fn spec_precharge(op: u16, flags: u32) -> u64 {
    let cc = flags & F_COST_CONDITIONS != 0;
    match op {
        51 => {
            if cc {
                1_350_000
            } else {
                1_800_000
            }
        }
        43..=50 => 1_200_000,
        60..=67 => {
            if cc {
                700
            } else {
                0
            }
        }
        _ => {
            if cc {
                200
            } else {
                0
            }
        }
    }
}

fn max_opt<T: Ord + Copy>(old: Option<T>, v: T) -> Option<T> {
    match old {
        Some(o) => Some(if o > v { o } else { v }),
        None => Some(v),
    }
}
fn min_opt<T: Ord + Copy>(old: Option<T>, v: T) -> Option<T> {
    match old {
        Some(o) => Some(if o < v { o } else { v }),
        None => Some(v),
    }
}

fn set_rel(p: &mut Snap) {
    if p.flags & HAS_REL == 0 {
        p.flags |= HAS_REL;
        p.n_assert_not_ephemeral += 1;
    }
}

fn valid_mode(m: u8) -> bool {
    m <= 7
}

/// One condition applied to a pre-state: the rules' effect on the summary, or the
/// rejection. `op` is the opcode on the wire (determines the pre-charge).
pub fn spec_step(p: &mut Snap, op: u16, c: AC, flags: u32) -> Option<ErrorCode> {
    let charge = spec_precharge(op, flags);
    if p.max_cost < charge {
        return Some(ErrorCode::CostExceeded);
    }
    p.max_cost -= charge;
    p.condition_cost += charge;
    p.s_condition_cost += charge;
    match c {
        AC::ReserveFee(f) => match p.reserve_fee.checked_add(f) {
            Some(s) => p.reserve_fee = s,
            None => return Some(ErrorCode::ReserveFeeConditionFailed),
        },
        AC::CreateCoin(amount, dup) => {
            if dup {
                return Some(ErrorCode::DuplicateOutput);
            }
            p.n_create_coin += 1;
            p.addition_amount += amount as u128;
        }
        AC::SecondsRelative(s) => {
            p.seconds_relative = max_opt(p.seconds_relative, s);
            if let Some(b) = p.before_seconds_relative {
                if b <= s {
                    return Some(ErrorCode::ImpossibleSecondsRelativeConstraints);
                }
            }
            set_rel(p);
        }
        AC::SecondsAbsolute(s) => {
            if s > p.seconds_absolute {
                p.seconds_absolute = s;
            }
        }
        AC::HeightRelative(h) => {
            p.height_relative = max_opt(p.height_relative, h);
            if let Some(b) = p.before_height_relative {
                if b <= h {
                    return Some(ErrorCode::ImpossibleHeightRelativeConstraints);
                }
            }
            set_rel(p);
        }
        AC::HeightAbsolute(h) => {
            if h > p.height_absolute {
                p.height_absolute = h;
            }
        }
        AC::BeforeSecondsRelative(s) => {
            p.before_seconds_relative = min_opt(p.before_seconds_relative, s);
            if let Some(a) = p.seconds_relative {
                if s <= a {
                    return Some(ErrorCode::ImpossibleSecondsRelativeConstraints);
                }
            }
            set_rel(p);
        }
        AC::BeforeSecondsAbsolute(s) => {
            p.before_seconds_absolute = min_opt(p.before_seconds_absolute, s);
        }
        AC::BeforeHeightRelative(h) => {
            p.before_height_relative = min_opt(p.before_height_relative, h);
            if let Some(a) = p.height_relative {
                if h <= a {
                    return Some(ErrorCode::ImpossibleHeightRelativeConstraints);
                }
            }
            set_rel(p);
        }
        AC::BeforeHeightAbsolute(h) => {
            p.before_height_absolute = min_opt(p.before_height_absolute, h);
        }
        AC::MyCoinId(eq) => {
            if !eq {
                return Some(ErrorCode::AssertMyCoinIdFailed);
            }
        }
        AC::MyParentId(eq) => {
            if !eq {
                return Some(ErrorCode::AssertMyParentIdFailed);
            }
        }
        AC::MyPuzzlehash(eq) => {
            if !eq {
                return Some(ErrorCode::AssertMyPuzzleHashFailed);
            }
        }
        AC::MyAmount(x) => {
            if x != p.coin_amount {
                return Some(ErrorCode::AssertMyAmountFailed);
            }
        }
        AC::MyBirthSeconds(s) => {
            if let Some(v) = p.birth_seconds {
                if v != s {
                    return Some(ErrorCode::AssertMyBirthSecondsFailed);
                }
            }
            p.birth_seconds = Some(s);
            set_rel(p);
        }
        AC::MyBirthHeight(h) => {
            if let Some(v) = p.birth_height {
                if v != h {
                    return Some(ErrorCode::AssertMyBirthHeightFailed);
                }
            }
            p.birth_height = Some(h);
            set_rel(p);
        }
        // set-valued effects: the element is added unless already present (the harness
        // checks membership of the expected element separately)
        AC::Ephemeral(already) => p.n_assert_ephemeral += !already as usize,
        AC::CreateCoinAnn(already) => p.n_announce_coin += !already as usize,
        AC::CreatePuzzleAnn(already) => p.n_announce_puzzle += !already as usize,
        AC::AssertCoinAnn(already) => p.n_assert_coin += !already as usize,
        AC::AssertPuzzleAnn(already) => p.n_assert_puzzle += !already as usize,
        AC::ConcurrentSpend(already) => p.n_assert_concurrent_spend += !already as usize,
        AC::ConcurrentPuzzle(already) => p.n_assert_concurrent_puzzle += !already as usize,
        AC::Softfork(cost) => {
            if p.max_cost < cost {
                return Some(ErrorCode::CostExceeded);
            }
            p.max_cost -= cost;
            p.condition_cost += cost;
            p.s_condition_cost += cost;
        }
        AC::Message(own_mode) => {
            if !valid_mode(own_mode) {
                return Some(ErrorCode::InvalidMessageMode);
            }
            p.n_messages += 1;
        }
        AC::Skip => {}
        AC::SkipRelative => set_rel(p),
        AC::AggSig(idx, key_ok, banned) => {
            if idx == 7 && banned {
                return Some(ErrorCode::InvalidMessage);
            }
            if !key_ok {
                return Some(ErrorCode::InvalidPublicKey);
            }
            match idx {
                0 => p.n_agg0 += 1,
                1 => p.n_agg1 += 1,
                2 => p.n_agg2 += 1,
                3 => p.n_agg3 += 1,
                4 => p.n_agg4 += 1,
                5 => p.n_agg5 += 1,
                6 => p.n_agg6 += 1,
                _ => p.n_agg_sig_unsafe += 1,
            }
            if flags & F_DONT_VALIDATE == 0 {
                p.n_pkm += 1;
            }
        }
    }
    p.n_spends += 1;
    None
}

// ---- the symbolic pre-state ---------------------------------------------------------

pub struct World {
    pub a: Allocator,
    pub ret: SpendBundleConditions,
    pub state: ParseState,
    pub parent: NodePtr,
    pub parent_bytes: [u8; 32],
    pub ph: NodePtr,
    pub ph_bytes: [u8; 32],
    pub coin_id: [u8; 32],
    pub max_cost: u64,
    pub flags: u32,
}

/// Everything scalar symbolic; collections empty unless the harness fills them.
/// Assumes the representation invariant of DESIGN.md §8.
pub const SYM_LOCKS: u32 = 1;
pub const SYM_COSTS: u32 = 2;
pub const SYM_AMOUNTS: u32 = 4;
pub const SYM_IDS: u32 = 8;
pub const SYM_ALL: u32 = 15;

fn sym<T: kani::Arbitrary>(on: bool, default: T) -> T {
    if on { kani::any() } else { default }
}

pub fn world() -> (World, SpendConditions) {
    world_with(SYM_ALL)
}

/// `mask` selects which groups of the pre-state are symbolic; the others take one fixed
/// representative value (stated per harness in the evidence).
pub fn world_with(mask: u32) -> (World, SpendConditions) {
    let locks = mask & SYM_LOCKS != 0;
    let costs = mask & SYM_COSTS != 0;
    let amounts = mask & SYM_AMOUNTS != 0;
    let ids = mask & SYM_IDS != 0;
    let mut a = Allocator::new();
    let parent_bytes: [u8; 32] = sym(ids, [1; 32]);
    let ph_bytes: [u8; 32] = sym(ids, [2; 32]);
    let coin_id: [u8; 32] = sym(ids, [3; 32]);
    let parent = a.new_atom(&parent_bytes).unwrap();
    let ph = a.new_atom(&ph_bytes).unwrap();
    let mut ret = SpendBundleConditions::default();
    ret.reserve_fee = sym(amounts, 7);
    ret.height_absolute = sym(locks, 5);
    ret.seconds_absolute = sym(locks, 6);
    ret.before_height_absolute = sym(locks, None);
    ret.before_seconds_absolute = sym(locks, Some(1000));
    ret.cost = sym(costs, 0);
    ret.execution_cost = sym(costs, 11);
    ret.condition_cost = sym(costs, 1000);
    ret.removal_amount = sym(amounts, 1 << 70);
    ret.addition_amount = sym(amounts, 1 << 69);
    let max_cost: u64 = kani::any();
    // Inv: initial_limit - max_cost = condition cost charged so far (cannot overflow)
    kani::assume(ret.condition_cost.checked_add(max_cost).is_some());
    // Inv: amounts are sums of at most 2^32 u64 values
    kani::assume(ret.addition_amount < (1u128 << 100));
    kani::assume(ret.removal_amount < (1u128 << 100));
    let mut state = ParseState::default();
    let mut spend = SpendConditions::new(parent, sym(amounts, 123), ph, Arc::new(Bytes32::new(coin_id)), sym(costs, 77));
    spend.height_relative = sym(locks, None);
    spend.seconds_relative = sym(locks, Some(10));
    spend.before_height_relative = sym(locks, Some(100));
    spend.before_seconds_relative = sym(locks, None);
    spend.birth_height = sym(locks, None);
    spend.birth_seconds = sym(locks, Some(3));
    spend.condition_cost = sym(costs, 500);
    kani::assume(spend.condition_cost <= ret.condition_cost);
    // Inv: an impossible pair was rejected when it arose
    if let (Some(a_), Some(b_)) = (spend.seconds_relative, spend.before_seconds_relative) {
        kani::assume(a_ < b_);
    }
    if let (Some(a_), Some(b_)) = (spend.height_relative, spend.before_height_relative) {
        kani::assume(a_ < b_);
    }
    // Inv: HAS_RELATIVE_CONDITION <=> this spend's index is in assert_not_ephemeral
    let has_rel: bool = kani::any();
    let any_rel_field = spend.height_relative.is_some()
        || spend.seconds_relative.is_some()
        || spend.before_height_relative.is_some()
        || spend.before_seconds_relative.is_some()
        || spend.birth_height.is_some()
        || spend.birth_seconds.is_some();
    kani::assume(has_rel || !any_rel_field);
    if has_rel {
        spend.flags |= HAS_REL;
    }
    // always one entry (index 0 = this spend, or the index of an unrelated spend): a
    // symbolic *shape* of the heap is what CBMC handles worst
    state.verif_view().assert_not_ephemeral.insert(if has_rel { 0 } else { 7 });
    let flags: u32 = kani::any();
    (
        World { a, ret, state, parent, parent_bytes, ph, ph_bytes, coin_id, max_cost, flags },
        spend,
    )
}

/// `((op . args))` with a one- or two-byte opcode atom
pub fn one_condition(a: &mut Allocator, op: u16) -> NodePtr {
    one_condition_args(a, op, &[])
}

/// `((op arg0 arg1 ...))`. Under Kani `parse_args` is stubbed and never looks at the
/// arguments; under native replay (no stubs) the REAL `parse_args` decodes them, so a
/// harness that passes the arguments its expected condition was made from replays faithfully.
pub fn one_condition_args(a: &mut Allocator, op: u16, args: &[NodePtr]) -> NodePtr {
    let opn = if op < 256 {
        a.new_atom(&[op as u8]).unwrap()
    } else {
        a.new_atom(&op.to_be_bytes()).unwrap()
    };
    let mut list = NodePtr::NIL;
    let mut i = args.len();
    while i > 0 {
        i -= 1;
        list = a.new_pair(args[i], list).unwrap();
    }
    let c = a.new_pair(opn, list).unwrap();
    a.new_pair(c, NodePtr::NIL).unwrap()
}

/// true only when the harness body runs natively (concrete playback); stubbed to `false`
/// in every arm harness, so under Kani the native-only argument construction is pruned
pub fn is_native() -> bool {
    true
}
pub fn is_native_no() -> bool {
    false
}

/// the atom a condition's integer argument would be: built only under native replay (under
/// Kani a symbolic integer atom has a symbolic length, and nothing reads it anyway)
pub fn int_arg(a: &mut Allocator, v: u64) -> NodePtr {
    if is_native() {
        a.new_u64(v).unwrap()
    } else {
        NodePtr::NIL
    }
}
/// a negative integer argument (native replay of the tautology arms)
pub fn neg_arg(a: &mut Allocator) -> NodePtr {
    if is_native() {
        a.new_atom(&[0xff]).unwrap()
    } else {
        NodePtr::NIL
    }
}

pub struct Outcome {
    /// expected post-state: starts as the pre-state snapshot, transformed by spec_step
    pub exp: Snap,
    pub pre_flags: u32,
    pub pre_max_cost: u64,
    pub err: Option<ErrorCode>,
}

/// Runs the real parse_conditions::<CV<EmptyVisitor>> on `list`.
pub fn run_empty(w: &mut World, spend: SpendConditions, list: NodePtr, kind: u8) -> Outcome {
    unsafe { crate::stubs::G.exp_kind = kind };
    let exp = snap(&w.ret, &spend, &mut w.state, w.max_cost, w.ret.spends.len());
    let pre_flags = spend.flags;
    let pre_max_cost = w.max_cost;
    let flags = ConsensusFlags::from_bits_retain(w.flags);
    let mut v = CV { inner: EmptyVisitor {} };
    let mut mc = w.max_cost;
    let r = parse_conditions(&w.a, &mut w.ret, &mut w.state, spend, list, flags, &mut mc, &TEST_CONSTANTS, &mut v);
    let err = match r {
        Ok(_) => None,
        Err(e) => Some(e.error_code()),
    };
    w.max_cost = mc;
    Outcome { exp, pre_flags, pre_max_cost, err }
}

macro_rules! field_eq {
    ($g:expr, $w:expr, $($f:ident),*) => { $( assert!($g.$f == $w.$f, concat!("summary field differs from the rules: ", stringify!($f))); )* };
}

/// Asserts that the outcome is exactly what the rules derive.
pub fn check_outcome(w: &mut World, o: &mut Outcome, op: u16, c: AC) {
    let want_err = spec_step(&mut o.exp, op, c, w.flags);
    assert!(o.err == want_err, "accept/reject (and the error code) as the rules prescribe");
    if o.err.is_none() {
        let n = w.ret.spends.len();
        let got = snap(&w.ret, &w.ret.spends[n - 1], &mut w.state, w.max_cost, n);
        let e = &o.exp;
        field_eq!(got, e, reserve_fee, height_absolute, seconds_absolute, before_height_absolute,
            before_seconds_absolute, cost, execution_cost, condition_cost, removal_amount, addition_amount,
            n_agg_sig_unsafe, n_spends, validated_signature, coin_amount, height_relative, seconds_relative,
            before_height_relative, before_seconds_relative, birth_height, birth_seconds, flags,
            s_execution_cost, s_condition_cost, n_create_coin, n_agg0, n_agg1, n_agg2, n_agg3, n_agg4, n_agg5,
            n_agg6, n_announce_coin, n_announce_puzzle, n_assert_coin, n_assert_puzzle, n_messages,
            n_assert_concurrent_spend, n_assert_concurrent_puzzle, n_spent_coins, n_spent_puzzles,
            n_assert_ephemeral, n_assert_not_ephemeral, n_pkm, max_cost);
    }
}
