//! One inductive step of `parse_conditions` per condition kind, from an arbitrary
//! pre-state, against `arm::spec_step` (serves C01, C02, C03, C04).
use crate::arm::*;
use crate::h::*;
use crate::stubs::G;
use chia_consensus::conditions::*;
use chia_consensus::validation_error::ErrorCode;
use chia_protocol::Bytes32;
use clvmr::allocator::{Allocator, NodePtr};
use std::sync::Arc;

fn finish(w: World) {
    std::mem::forget(w);
}

// ---- time locks and birth assertions (C03, C01) ------------------------------------

macro_rules! lock_arm_u64 {
    ($name:ident, $stub:path, $op:expr, $ac:path, $kind:expr) => {
        arm_harness!($name, $stub, 4, {
            let (mut w, spend) = world_with(SYM_LOCKS | SYM_COSTS | SYM_AMOUNTS);
            let v: u64 = kani::any();
            unsafe { crate::stubs::G.p_u64 = v };
            let arg = int_arg(&mut w.a, v);
            let list = one_condition_args(&mut w.a, $op, &[arg]);
            let mut o = run_empty(&mut w, spend, list, $kind);
            check_outcome(&mut w, &mut o, $op, $ac(v));
            kani::cover!(o.err.is_none());
            kani::cover!(o.err.is_some() && o.err != Some(ErrorCode::CostExceeded));
            finish(w);
        });
    };
}
macro_rules! lock_arm_u32 {
    ($name:ident, $stub:path, $op:expr, $ac:path, $kind:expr) => {
        arm_harness!($name, $stub, 4, {
            let (mut w, spend) = world_with(SYM_LOCKS | SYM_COSTS | SYM_AMOUNTS);
            let v: u32 = kani::any();
            unsafe { crate::stubs::G.p_u32 = v };
            let arg = int_arg(&mut w.a, v as u64);
            let list = one_condition_args(&mut w.a, $op, &[arg]);
            let mut o = run_empty(&mut w, spend, list, $kind);
            check_outcome(&mut w, &mut o, $op, $ac(v));
            kani::cover!(o.err.is_none());
            kani::cover!(o.err.is_some() && o.err != Some(ErrorCode::CostExceeded));
            finish(w);
        });
    };
}
/// for arms that cannot fail other than by cost
macro_rules! lock_arm_u64_nofail {
    ($name:ident, $stub:path, $op:expr, $ac:path, $kind:expr) => {
        arm_harness!($name, $stub, 4, {
            let (mut w, spend) = world_with(SYM_LOCKS | SYM_COSTS | SYM_AMOUNTS);
            let v: u64 = kani::any();
            unsafe { crate::stubs::G.p_u64 = v };
            let arg = int_arg(&mut w.a, v);
            let list = one_condition_args(&mut w.a, $op, &[arg]);
            let mut o = run_empty(&mut w, spend, list, $kind);
            check_outcome(&mut w, &mut o, $op, $ac(v));
            kani::cover!(o.err.is_none());
            kani::cover!(o.err == Some(ErrorCode::CostExceeded));
            finish(w);
        });
    };
}
macro_rules! lock_arm_u32_nofail {
    ($name:ident, $stub:path, $op:expr, $ac:path, $kind:expr) => {
        arm_harness!($name, $stub, 4, {
            let (mut w, spend) = world_with(SYM_LOCKS | SYM_COSTS | SYM_AMOUNTS);
            let v: u32 = kani::any();
            unsafe { crate::stubs::G.p_u32 = v };
            let arg = int_arg(&mut w.a, v as u64);
            let list = one_condition_args(&mut w.a, $op, &[arg]);
            let mut o = run_empty(&mut w, spend, list, $kind);
            check_outcome(&mut w, &mut o, $op, $ac(v));
            kani::cover!(o.err.is_none());
            kani::cover!(o.err == Some(ErrorCode::CostExceeded));
            finish(w);
        });
    };
}

lock_arm_u64!(arm_lock_seconds_relative, crate::arm::pa_seconds_relative, 80, AC::SecondsRelative, K_SECONDS_RELATIVE);
lock_arm_u64_nofail!(arm_lock_seconds_absolute, crate::arm::pa_seconds_absolute, 81, AC::SecondsAbsolute, K_SECONDS_ABSOLUTE);
lock_arm_u32!(arm_lock_height_relative, crate::arm::pa_height_relative, 82, AC::HeightRelative, K_HEIGHT_RELATIVE);
lock_arm_u32_nofail!(arm_lock_height_absolute, crate::arm::pa_height_absolute, 83, AC::HeightAbsolute, K_HEIGHT_ABSOLUTE);
lock_arm_u64!(arm_lock_before_seconds_relative, crate::arm::pa_before_seconds_relative, 84, AC::BeforeSecondsRelative, K_BEFORE_SECONDS_RELATIVE);
lock_arm_u64_nofail!(arm_lock_before_seconds_absolute, crate::arm::pa_before_seconds_absolute, 85, AC::BeforeSecondsAbsolute, K_BEFORE_SECONDS_ABSOLUTE);
lock_arm_u32!(arm_lock_before_height_relative, crate::arm::pa_before_height_relative, 86, AC::BeforeHeightRelative, K_BEFORE_HEIGHT_RELATIVE);
lock_arm_u32_nofail!(arm_lock_before_height_absolute, crate::arm::pa_before_height_absolute, 87, AC::BeforeHeightAbsolute, K_BEFORE_HEIGHT_ABSOLUTE);
lock_arm_u64!(arm_lock_my_birth_seconds, crate::arm::pa_my_birth_seconds, 74, AC::MyBirthSeconds, K_MY_BIRTH_SECONDS);
lock_arm_u32!(arm_lock_my_birth_height, crate::arm::pa_my_birth_height, 75, AC::MyBirthHeight, K_MY_BIRTH_HEIGHT);

arm_harness!(arm_lock_skip_relative, crate::arm::pa_skip_relative, 4, {
    // a relative lock with a negative argument is a tautology but still counts as a
    // relative condition (ephemeral rule)
    let (mut w, spend) = world_with(SYM_LOCKS | SYM_COSTS | SYM_AMOUNTS);
    let arg = neg_arg(&mut w.a);
    let list = one_condition_args(&mut w.a, 80, &[arg]);
    let mut o = run_empty(&mut w, spend, list, K_SKIP_RELATIVE);
    check_outcome(&mut w, &mut o, 80, AC::SkipRelative);
    if o.err.is_none() {
        assert!(w.ret.spends[0].flags & HAS_REL != 0);
        assert!(w.state.verif_view().assert_not_ephemeral.contains(&0));
    }
    kani::cover!(o.err.is_none() && o.pre_flags & HAS_REL == 0);
    kani::cover!(o.err.is_none() && o.pre_flags & HAS_REL != 0);
    finish(w);
});

// ---- value (C02, C01) -------------------------------------------------------------------

arm_harness!(arm_value_reserve_fee, crate::arm::pa_reserve_fee, 4, {
    let (mut w, spend) = world_with(SYM_LOCKS | SYM_COSTS | SYM_AMOUNTS);
    let v: u64 = kani::any();
    unsafe { crate::stubs::G.p_u64 = v };
    let arg = int_arg(&mut w.a, v);
    let list = one_condition_args(&mut w.a, 52, &[arg]);
    let mut o = run_empty(&mut w, spend, list, K_RESERVE_FEE);
    check_outcome(&mut w, &mut o, 52, AC::ReserveFee(v));
    kani::cover!(o.err.is_none());
    kani::cover!(o.err == Some(ErrorCode::ReserveFeeConditionFailed));
    finish(w);
});

arm_harness!(arm_value_create_coin, crate::arm::pa_create_coin, 36, {
    let (mut w, mut spend) = world_with(SYM_COSTS | SYM_AMOUNTS);
    // puzzle hash: first and last byte symbolic, the rest fixed (stated bound)
    let mut ph = [0x22u8; 32];
    ph[0] = kani::any();
    ph[31] = kani::any();
    let amount: u64 = kani::any();
    let phn = w.a.new_atom(&ph).unwrap();
    let hint_bytes: [u8; 2] = kani::any();
    let hint_node = w.a.new_atom(&hint_bytes).unwrap();
    let hint = if kani::any() { hint_node } else { NodePtr::NIL };
    // an output this spend already created (always present: a symbolic *shape* of the
    // heap is what CBMC handles worst; whether it collides is decided by the data)
    let have_prev: bool = true;
    // same puzzle hash up to one symbolic byte, so "equal" and "different" are both reachable
    let mut prev_ph: [u8; 32] = ph;
    let delta: u8 = kani::any();
    prev_ph[31] ^= delta;
    let prev_amount: u64 = kani::any();
    if have_prev {
        spend.create_coin.insert(NewCoin { puzzle_hash: Bytes32::new(prev_ph), amount: prev_amount, hint: w.ph });
    }
    let dup = have_prev && prev_ph == ph && prev_amount == amount;
    unsafe {
        crate::stubs::G.p_n1 = phn;
        crate::stubs::G.p_u64 = amount;
        crate::stubs::G.p_n2 = hint;
    }
    let amount_arg = int_arg(&mut w.a, amount);
    // (allocated unconditionally: a conditional allocation is a symbolic heap shape)
    let memo_pair = w.a.new_pair(hint_node, NodePtr::NIL).unwrap();
    let memo = if hint == NodePtr::NIL { NodePtr::NIL } else { memo_pair };
    let list = one_condition_args(&mut w.a, 51, &[phn, amount_arg, memo]);
    let mut o = run_empty(&mut w, spend, list, K_CREATE_COIN);
    check_outcome(&mut w, &mut o, 51, AC::CreateCoin(amount, dup));
    if o.err.is_none() {
        let sp = w.ret.spends.last().unwrap();
        let items = sp.create_coin.verif_items();
        let last = &items[items.len() - 1];
        assert!(last.puzzle_hash.as_ref() == &ph[..]);
        assert!(last.amount == amount);
        assert!(last.hint == hint);
    }
    kani::cover!(o.err.is_none() && have_prev);
    kani::cover!(o.err == Some(ErrorCode::DuplicateOutput));
    kani::cover!(o.err == Some(ErrorCode::CostExceeded));
    finish(w);
});

// ---- self assertions (C01) -----------------------------------------------------------------

arm_harness!(arm_self_my_amount, crate::arm::pa_my_amount, 4, {
    let (mut w, spend) = world_with(SYM_LOCKS | SYM_COSTS | SYM_AMOUNTS);
    let v: u64 = kani::any();
    unsafe { crate::stubs::G.p_u64 = v };
    let arg = int_arg(&mut w.a, v);
    let list = one_condition_args(&mut w.a, 73, &[arg]);
    let mut o = run_empty(&mut w, spend, list, K_MY_AMOUNT);
    check_outcome(&mut w, &mut o, 73, AC::MyAmount(v));
    kani::cover!(o.err.is_none());
    kani::cover!(o.err == Some(ErrorCode::AssertMyAmountFailed));
    finish(w);
});

arm_harness!(arm_self_my_coin_id, crate::arm::pa_my_coin_id, 36, {
    let (mut w, spend) = world_with(SYM_IDS | SYM_COSTS);
    let id: [u8; 32] = kani::any();
    let n = w.a.new_atom(&id).unwrap();
    unsafe { crate::stubs::G.p_n1 = n };
    let list = one_condition_args(&mut w.a, 70, &[n]);
    let mut o = run_empty(&mut w, spend, list, K_MY_COIN_ID);
    let eq = id == w.coin_id;
    check_outcome(&mut w, &mut o, 70, AC::MyCoinId(eq));
    kani::cover!(o.err.is_none());
    kani::cover!(o.err == Some(ErrorCode::AssertMyCoinIdFailed));
    finish(w);
});

arm_harness!(arm_self_my_parent_id, crate::arm::pa_my_parent_id, 36, {
    let (mut w, spend) = world_with(SYM_IDS | SYM_COSTS);
    let id: [u8; 32] = kani::any();
    let n = w.a.new_atom(&id).unwrap();
    unsafe { crate::stubs::G.p_n1 = n };
    let list = one_condition_args(&mut w.a, 71, &[n]);
    let mut o = run_empty(&mut w, spend, list, K_MY_PARENT_ID);
    let eq = id == w.parent_bytes;
    check_outcome(&mut w, &mut o, 71, AC::MyParentId(eq));
    kani::cover!(o.err.is_none());
    kani::cover!(o.err == Some(ErrorCode::AssertMyParentIdFailed));
    finish(w);
});

arm_harness!(arm_self_my_puzzlehash, crate::arm::pa_my_puzzlehash, 36, {
    let (mut w, spend) = world_with(SYM_IDS | SYM_COSTS);
    let id: [u8; 32] = kani::any();
    let n = w.a.new_atom(&id).unwrap();
    unsafe { crate::stubs::G.p_n1 = n };
    let list = one_condition_args(&mut w.a, 72, &[n]);
    let mut o = run_empty(&mut w, spend, list, K_MY_PUZZLEHASH);
    let eq = id == w.ph_bytes;
    check_outcome(&mut w, &mut o, 72, AC::MyPuzzlehash(eq));
    kani::cover!(o.err.is_none());
    kani::cover!(o.err == Some(ErrorCode::AssertMyPuzzleHashFailed));
    finish(w);
});

// ---- announcements, concurrency, ephemeral (C01) ----------------------------------------------

arm_harness!(arm_ann_ephemeral, crate::arm::pa_ephemeral, 4, {
    let (mut w, spend) = world_with(SYM_LOCKS | SYM_COSTS | SYM_AMOUNTS);
    let already: bool = kani::any();
    w.state.verif_view().assert_ephemeral.insert(if already { 0 } else { 7 });
    let list = one_condition(&mut w.a, 76);
    let mut o = run_empty(&mut w, spend, list, K_EPHEMERAL);
    check_outcome(&mut w, &mut o, 76, AC::Ephemeral(already));
    if o.err.is_none() {
        assert!(w.state.verif_view().assert_ephemeral.contains(&0));
    }
    kani::cover!(o.err.is_none() && already);
    kani::cover!(o.err.is_none() && !already);
    finish(w);
});

macro_rules! node_set_arm {
    ($name:ident, $stub:path, $op:expr, $ac:path, $field:ident, $kind:expr) => {
        arm_harness!($name, $stub, 4, {
            let (mut w, spend) = world_with(SYM_LOCKS | SYM_COSTS | SYM_AMOUNTS);
            let b: [u8; 32] = kani::any();
            let n = w.a.new_atom(&b).unwrap();
            unsafe { crate::stubs::G.p_n1 = n };
            let already: bool = kani::any();
            let other = w.a.new_atom(&[0x44; 32]).unwrap();
            w.state.verif_view().$field.insert(if already { n } else { other });
            let list = one_condition_args(&mut w.a, $op, &[n]);
            let mut o = run_empty(&mut w, spend, list, $kind);
            check_outcome(&mut w, &mut o, $op, $ac(already));
            if o.err.is_none() {
                assert!(w.state.verif_view().$field.contains(&n));
            }
            kani::cover!(o.err.is_none() && already);
            kani::cover!(o.err.is_none() && !already);
            kani::cover!(o.err == Some(ErrorCode::CostExceeded));
            finish(w);
        });
    };
}
node_set_arm!(arm_ann_assert_coin, crate::arm::pa_assert_coin_ann, 61, AC::AssertCoinAnn, assert_coin, K_ASSERT_COIN_ANN);
node_set_arm!(arm_ann_assert_puzzle, crate::arm::pa_assert_puzzle_ann, 63, AC::AssertPuzzleAnn, assert_puzzle, K_ASSERT_PUZZLE_ANN);
node_set_arm!(arm_ann_concurrent_spend, crate::arm::pa_concurrent_spend, 64, AC::ConcurrentSpend, assert_concurrent_spend, K_CONCURRENT_SPEND);
node_set_arm!(arm_ann_concurrent_puzzle, crate::arm::pa_concurrent_puzzle, 65, AC::ConcurrentPuzzle, assert_concurrent_puzzle, K_CONCURRENT_PUZZLE);

arm_harness!(arm_ann_create_coin_ann, crate::arm::pa_create_coin_ann, 36, {
    let (mut w, spend) = world_with(SYM_IDS | SYM_COSTS);
    let m: [u8; 3] = kani::any();
    let n = w.a.new_atom(&m).unwrap();
    unsafe { crate::stubs::G.p_n1 = n };
    let list = one_condition_args(&mut w.a, 60, &[n]);
    let mut o = run_empty(&mut w, spend, list, K_CREATE_COIN_ANN);
    check_outcome(&mut w, &mut o, 60, AC::CreateCoinAnn(false));
    if o.err.is_none() {
        // the announcement is recorded under this spend's coin id
        let v = w.state.verif_view();
        let it = &v.announce_coin.verif_items()[0];
        assert!(it.1 == n);
        assert!(it.0.as_ref().as_ref() == &w.coin_id[..]);
    }
    kani::cover!(o.err.is_none());
    finish(w);
});

arm_harness!(arm_ann_create_puzzle_ann, crate::arm::pa_create_puzzle_ann, 4, {
    let (mut w, spend) = world_with(SYM_LOCKS | SYM_COSTS | SYM_AMOUNTS);
    let m: [u8; 3] = kani::any();
    let n = w.a.new_atom(&m).unwrap();
    unsafe { crate::stubs::G.p_n1 = n };
    let list = one_condition_args(&mut w.a, 62, &[n]);
    let mut o = run_empty(&mut w, spend, list, K_CREATE_PUZZLE_ANN);
    check_outcome(&mut w, &mut o, 62, AC::CreatePuzzleAnn(false));
    if o.err.is_none() {
        let ph = w.ph;
        let v = w.state.verif_view();
        let it = &v.announce_puzzle.verif_items()[0];
        assert!(it.0 == ph && it.1 == n);
    }
    kani::cover!(o.err.is_none());
    finish(w);
});

// ---- cost-only conditions (C04, C01) ---------------------------------------------------------

arm_harness!(arm_cost_softfork, crate::arm::pa_softfork, 4, {
    let (mut w, spend) = world_with(SYM_LOCKS | SYM_COSTS | SYM_AMOUNTS);
    let c: u64 = kani::any();
    unsafe { crate::stubs::G.p_u64 = c };
    // Inv extension: the softfork cost argument is at most 2^32 * 10000
    kani::assume(c <= (u32::MAX as u64) * 10000);
    kani::assume(w.ret.condition_cost.checked_add(w.max_cost).is_some());
    let list = one_condition(&mut w.a, 90);
    let mut o = run_empty(&mut w, spend, list, K_SOFTFORK);
    check_outcome(&mut w, &mut o, 90, AC::Softfork(c));
    kani::cover!(o.err.is_none() && c > 0);
    kani::cover!(o.err == Some(ErrorCode::CostExceeded) && o.pre_max_cost >= 200);
    finish(w);
});

arm_harness!(arm_cost_skip_remark, crate::arm::pa_skip, 4, {
    let (mut w, spend) = world_with(SYM_LOCKS | SYM_COSTS | SYM_AMOUNTS);
    let list = one_condition(&mut w.a, 1);
    let mut o = run_empty(&mut w, spend, list, K_SKIP);
    check_outcome(&mut w, &mut o, 1, AC::Skip);
    kani::cover!(o.err.is_none());
    kani::cover!(o.err == Some(ErrorCode::CostExceeded));
    finish(w);
});

arm_harness!(arm_cost_two_byte_opcode, crate::arm::pa_softfork, 4, {
    // a known-cost 2-byte opcode: parse_args yields Softfork(table cost); here the
    // stub supplies an arbitrary cost, the pre-charge for the opcode itself is GENERIC
    let (mut w, spend) = world_with(SYM_LOCKS | SYM_COSTS | SYM_AMOUNTS);
    let c: u64 = kani::any();
    unsafe { crate::stubs::G.p_u64 = c };
    let op: u16 = kani::any();
    kani::assume(op >= 256);
    let list = one_condition(&mut w.a, op);
    let mut o = run_empty(&mut w, spend, list, K_SOFTFORK);
    check_outcome(&mut w, &mut o, op, AC::Softfork(c));
    kani::cover!(o.err.is_none());
    finish(w);
});

// ---- messages (C01) ---------------------------------------------------------------------------------

fn msg_arm(send: bool) {
    let (mut w, spend) = world_with(SYM_COSTS | SYM_AMOUNTS);
    let mb: [u8; 3] = kani::any();
    let m = w.a.new_atom(&mb).unwrap();
    let other1 = w.a.new_atom(&[0x61; 32]).unwrap();
    let other2 = w.a.new_atom(&[0x62; 32]).unwrap();
    let own_mode: u8 = kani::any();
    let sid: u8 = kani::any();
    kani::assume(sid <= 7);
    let amt: u64 = kani::any();
    unsafe {
        G.p_n1 = m;
        G.p_n2 = other1;
        G.p_n3 = other2;
        G.p_u8 = own_mode;
        G.p_sid = sid;
        G.p_u64 = amt;
    }
    let op: u16 = if send { 66 } else { 67 };
    let coin_amount = spend.coin_amount;
    let list = one_condition(&mut w.a, op);
    let mut o = run_empty(&mut w, spend, list, if send { K_SEND_MESSAGE } else { K_RECEIVE_MESSAGE });
    check_outcome(&mut w, &mut o, op, AC::Message(own_mode));
    if o.err.is_none() {
        let (parent, ph) = (w.parent, w.ph);
        let v = w.state.verif_view();
        let msg = &v.messages[v.messages.len() - 1];
        assert!(msg.msg == m);
        assert!(msg.counter == if send { 1 } else { -1 }, "a send counts +1, a receive -1");
        let (own, other) = if send { (&msg.src, &msg.dst) } else { (&msg.dst, &msg.src) };
        // the own side commits to exactly the attributes selected by the mode bits
        use chia_consensus::messages::SpendId;
        let ok = match own_mode {
            0 => matches!(own, SpendId::None),
            1 => matches!(own, SpendId::Amount(x) if *x == coin_amount),
            2 => matches!(own, SpendId::Puzzle(p) if *p == ph),
            3 => matches!(own, SpendId::PuzzleAmount(p, x) if *p == ph && *x == coin_amount),
            4 => matches!(own, SpendId::Parent(p) if *p == parent),
            5 => matches!(own, SpendId::ParentAmount(p, x) if *p == parent && *x == coin_amount),
            6 => matches!(own, SpendId::ParentPuzzle(p, q) if *p == parent && *q == ph),
            _ => matches!(own, SpendId::OwnedCoinId(id) if id.as_ref().as_ref() == &w.coin_id[..]),
        };
        assert!(ok, "own side of the message is derived from the spend's own attributes");
        // the other side is what the condition said
        let same = match sid {
            0 => matches!(other, SpendId::None),
            1 => matches!(other, SpendId::CoinId(n) if *n == other1),
            2 => matches!(other, SpendId::Parent(n) if *n == other1),
            3 => matches!(other, SpendId::Puzzle(n) if *n == other1),
            4 => matches!(other, SpendId::Amount(x) if *x == amt),
            5 => matches!(other, SpendId::PuzzleAmount(n, x) if *n == other1 && *x == amt),
            6 => matches!(other, SpendId::ParentAmount(n, x) if *n == other1 && *x == amt),
            _ => matches!(other, SpendId::ParentPuzzle(n, q) if *n == other1 && *q == other2),
        };
        assert!(same);
    }
    kani::cover!(o.err.is_none() && own_mode == 7);
    kani::cover!(o.err.is_none() && own_mode == 0);
    kani::cover!(o.err == Some(ErrorCode::InvalidMessageMode));
    finish(w);
}
arm_harness!(arm_msg_send, crate::arm::pa_send_message, 36, { msg_arm(true) });
arm_harness!(arm_msg_receive, crate::arm::pa_receive_message, 36, { msg_arm(false) });
