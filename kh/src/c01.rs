//! C01 — conditions are accepted / rejected / summarised per the rules.
//! This file: opcode whitelist, list-termination helpers, argument decoding
//! (`parse_args`) per opcode. Per-condition effects: arms.rs; cross-spend validation:
//! c01v.rs.
use crate::arm::*;
use crate::c11::{classify_uint, UintClass};
use crate::cost_table::COST_TABLE;
use crate::h::*;
use chia_consensus::conditions::*;
use chia_consensus::flags::ConsensusFlags;
use chia_consensus::messages::SpendId;
use chia_consensus::opcodes::*;
use chia_consensus::validation_error::{check_nil, first, next, rest, ErrorCode, ValidationErr};
use clvmr::allocator::{Allocator, NodePtr, SExp};

// ---- opcode whitelist ------------------------------------------------------------------

pub fn known_one_byte(x: u8) -> bool {
    x == 1 || (x >= 43 && x <= 52) || (x >= 60 && x <= 67) || (x >= 70 && x <= 76) || (x >= 80 && x <= 87) || x == 90
}

fn opcode_class<const L: usize>() {
    let mut a = Allocator::new();
    let (n, b) = sym_atom::<L>(&mut a);
    let flags = ConsensusFlags::from_bits_retain(kani::any());
    let got = parse_opcode(&a, n, flags);
    let want: Option<u16> = if L == 1 && known_one_byte(b[0]) {
        Some(b[0] as u16)
    } else if L == 2 && b[0] != 0 {
        Some(((b[0] as u16) << 8) | b[1] as u16)
    } else {
        None
    };
    assert!(got == want);
    kani::cover!(got.is_some() || (L != 1 && L != 2));
    kani::cover!(got.is_none());
    std::mem::forget(a);
}
harness!(c01_opcode_l0, 6, { opcode_class::<0>() });
harness!(c01_opcode_l1, 6, { opcode_class::<1>() });
harness!(c01_opcode_l2, 6, { opcode_class::<2>() });
harness!(c01_opcode_l3, 6, { opcode_class::<3>() });
harness!(c01_opcode_l4, 6, { opcode_class::<4>() });
harness!(c01_opcode_pair, 6, {
    let mut a = Allocator::new();
    let x = a.new_atom(&[51]).unwrap();
    let p = a.new_pair(x, NodePtr::NIL).unwrap();
    assert!(parse_opcode(&a, p, ConsensusFlags::from_bits_retain(kani::any())).is_none());
    std::mem::forget(a);
});

// ---- list termination ---------------------------------------------------------------------

fn is_invalid_condition<T>(r: &Result<T, ValidationErr>) -> bool {
    matches!(r, Err(ValidationErr::Err(ErrorCode::InvalidCondition)))
}

fn list_helpers_atom<const L: usize>() {
    let mut a = Allocator::new();
    let (n, _b) = sym_atom::<L>(&mut a);
    assert!(is_invalid_condition(&first(&a, n)));
    assert!(is_invalid_condition(&rest(&a, n)));
    let nx = next(&a, n);
    let cn = check_nil(&a, n);
    if L == 0 {
        assert!(matches!(nx, Ok(None)));
        assert!(cn.is_ok());
    } else {
        assert!(is_invalid_condition(&nx));
        assert!(is_invalid_condition(&cn));
    }
    std::mem::forget(a);
}
harness!(c01_list_atom_l0, 6, { list_helpers_atom::<0>() });
harness!(c01_list_atom_l1, 6, { list_helpers_atom::<1>() });
harness!(c01_list_atom_l2, 6, { list_helpers_atom::<2>() });
harness!(c01_list_atom_l5, 8, { list_helpers_atom::<5>() });
harness!(c01_list_pair, 6, {
    let mut a = Allocator::new();
    let (l, _) = sym_atom::<1>(&mut a);
    let (r, _) = sym_atom::<2>(&mut a);
    let p = a.new_pair(l, r).unwrap();
    assert!(matches!(first(&a, p), Ok(x) if x == l));
    assert!(matches!(rest(&a, p), Ok(x) if x == r));
    assert!(matches!(next(&a, p), Ok(Some((x, y))) if x == l && y == r));
    assert!(is_invalid_condition(&check_nil(&a, p)));
    std::mem::forget(a);
});

// ---- argument decoding ----------------------------------------------------------------------
//
// The argument list is (a0 . (a1 . ( ... (a_{N-1} . T)))), N in 0..=MAXN symbolic, every
// a_i a symbolic choice from a menu of pre-built nodes, T a symbolic choice between nil
// and a non-nil atom. Menus hold one node per length class relevant for the rule
// (hash: 31/32/33 bytes, key: 47/48/49, message: 0/3/1024/1025, integers: every length
// 0..9 with symbolic content), plus a pair.

pub const MAXN: usize = 4;

pub struct Args {
    pub n: usize,
    pub arg: [NodePtr; MAXN],
    /// index into the menu for every argument
    pub pick: [usize; MAXN],
    pub term_nil: bool,
    pub list: NodePtr,
}

/// builds the list; `menu` are candidate nodes
pub fn build_args(a: &mut Allocator, menu: &[NodePtr], maxn: usize) -> Args {
    let n: usize = kani::any();
    kani::assume(n <= maxn);
    let term_nil: bool = kani::any();
    let nonnil = a.new_atom(&[0x55]).unwrap();
    let term = if term_nil { NodePtr::NIL } else { nonnil };
    let mut arg = [NodePtr::NIL; MAXN];
    let mut pick = [0usize; MAXN];
    let mut i = 0;
    while i < maxn {
        let k: usize = kani::any();
        kani::assume(k < menu.len());
        pick[i] = k;
        arg[i] = menu[k];
        i += 1;
    }
    // chain from the back; an element past the end is replaced by the terminator
    let mut node = term;
    let mut j = maxn;
    while j > 0 {
        j -= 1;
        let p = a.new_pair(arg[j], node).unwrap();
        node = if j < n { p } else { term };
    }
    Args { n, arg, pick, term_nil, list: node }
}

pub const STRICT: u32 = 0x8_0000;
pub const NO_UNKNOWN: u32 = 0x2_0000;

/// menu entry description known to the spec
#[derive(Clone, Copy)]
pub struct Ent {
    pub is_pair: bool,
    pub len: usize,
    /// leading bytes (integers only; up to 10)
    pub bytes: [u8; 10],
}

pub fn ent_atom(len: usize) -> Ent {
    Ent { is_pair: false, len, bytes: [0; 10] }
}

/// "exactly `want` arguments and a nil terminator" (STRICT_ARGS_COUNT)
pub fn strict_ok(args: &Args, want: usize) -> bool {
    args.n == want && args.term_nil
}

// ---- single 32-byte hash argument -----------------------------------------------------------

pub fn hash_menu(a: &mut Allocator) -> ([NodePtr; 4], [Ent; 4]) {
    let n31 = a.new_atom(&[0x31; 31]).unwrap();
    let b32: [u8; 32] = kani::any();
    let n32 = a.new_atom(&b32).unwrap();
    let n33 = a.new_atom(&[0x33; 33]).unwrap();
    let p = a.new_pair(n32, NodePtr::NIL).unwrap();
    ([n31, n32, n33, p], [ent_atom(31), ent_atom(32), ent_atom(33), Ent { is_pair: true, len: 0, bytes: [0; 10] }])
}

fn one_hash(op: u16, code: ErrorCode, kind: u8) {
    let mut a = Allocator::new();
    let (menu, ents) = hash_menu(&mut a);
    let args = build_args(&mut a, &menu, 3);
    let fl: u32 = kani::any();
    let r = parse_args(&a, args.list, op, ConsensusFlags::from_bits_retain(fl));
    let strict = fl & STRICT != 0;
    let e0 = ents[args.pick[0]];
    let want_err = if args.n == 0 {
        Some(ErrorCode::InvalidCondition)
    } else if strict && !strict_ok(&args, 1) {
        Some(ErrorCode::InvalidCondition)
    } else if e0.is_pair || e0.len != 32 {
        Some(code)
    } else {
        None
    };
    match r {
        Ok(c) => {
            assert!(want_err.is_none(), "accepted although the rules reject");
            unsafe {
                crate::stubs::G.p_n1 = args.arg[0];
                assert!(cond_same(&c, kind), "decoded condition carries the argument node");
            }
            std::mem::forget(c);
        }
        Err(e) => assert!(Some(e.error_code()) == want_err, "rejection code as the rules prescribe"),
    }
    kani::cover!(want_err.is_none() && strict);
    kani::cover!(want_err.is_none() && !strict && args.n == 3);
    kani::cover!(want_err == Some(code));
    kani::cover!(want_err == Some(ErrorCode::InvalidCondition) && args.n == 2);
    std::mem::forget(a);
}
harness!(c01_args_assert_coin_announcement, 40, { one_hash(61, ErrorCode::AssertCoinAnnouncementFailed, K_ASSERT_COIN_ANN) });
harness!(c01_args_assert_puzzle_announcement, 40, { one_hash(63, ErrorCode::AssertPuzzleAnnouncementFailed, K_ASSERT_PUZZLE_ANN) });
harness!(c01_args_assert_concurrent_spend, 40, { one_hash(64, ErrorCode::AssertConcurrentSpendFailed, K_CONCURRENT_SPEND) });
harness!(c01_args_assert_concurrent_puzzle, 40, { one_hash(65, ErrorCode::AssertConcurrentPuzzleFailed, K_CONCURRENT_PUZZLE) });
harness!(c01_args_assert_my_coin_id, 40, { one_hash(70, ErrorCode::AssertMyCoinIdFailed, K_MY_COIN_ID) });
harness!(c01_args_assert_my_parent_id, 40, { one_hash(71, ErrorCode::AssertMyParentIdFailed, K_MY_PARENT_ID) });
harness!(c01_args_assert_my_puzzlehash, 40, { one_hash(72, ErrorCode::AssertMyPuzzleHashFailed, K_MY_PUZZLEHASH) });

// ---- single message argument (<= 1024 bytes) ---------------------------------------------------

pub fn msg_menu(a: &mut Allocator) -> ([NodePtr; 5], [Ent; 5]) {
    let n0 = NodePtr::NIL;
    let b3: [u8; 3] = kani::any();
    let n3 = a.new_atom(&b3).unwrap();
    let n1024 = a.new_atom(&[0u8; 1024]).unwrap();
    let n1025 = a.new_atom(&[0u8; 1025]).unwrap();
    let p = a.new_pair(n3, NodePtr::NIL).unwrap();
    (
        [n0, n3, n1024, n1025, p],
        [ent_atom(0), ent_atom(3), ent_atom(1024), ent_atom(1025), Ent { is_pair: true, len: 0, bytes: [0; 10] }],
    )
}

fn one_msg(op: u16, code: ErrorCode, kind: u8) {
    let mut a = Allocator::new();
    let (menu, ents) = msg_menu(&mut a);
    let args = build_args(&mut a, &menu, 3);
    let fl: u32 = kani::any();
    let r = parse_args(&a, args.list, op, ConsensusFlags::from_bits_retain(fl));
    let strict = fl & STRICT != 0;
    let e0 = ents[args.pick[0]];
    let want_err = if args.n == 0 {
        Some(ErrorCode::InvalidCondition)
    } else if strict && !strict_ok(&args, 1) {
        Some(ErrorCode::InvalidCondition)
    } else if e0.is_pair || e0.len > 1024 {
        Some(code)
    } else {
        None
    };
    match r {
        Ok(c) => {
            assert!(want_err.is_none(), "accepted although the rules reject");
            unsafe {
                crate::stubs::G.p_n1 = args.arg[0];
                assert!(cond_same(&c, kind));
            }
            std::mem::forget(c);
        }
        Err(e) => assert!(Some(e.error_code()) == want_err, "rejection code as the rules prescribe"),
    }
    kani::cover!(want_err.is_none() && e0.len == 1024);
    kani::cover!(want_err == Some(code) && e0.len == 1025);
    kani::cover!(want_err == Some(code) && e0.is_pair);
    std::mem::forget(a);
}
harness!(c01_args_create_coin_announcement, 40, { one_msg(60, ErrorCode::InvalidCoinAnnouncement, K_CREATE_COIN_ANN) });
harness!(c01_args_create_puzzle_announcement, 40, { one_msg(62, ErrorCode::InvalidPuzzleAnnouncement, K_CREATE_PUZZLE_ANN) });

// ---- single integer argument ------------------------------------------------------------------

#[derive(Clone, Copy, PartialEq, Eq)]
pub enum IntRule {
    /// positive overflow / negative => what
    Fail,
    Skip,
    SkipRel,
}

/// Decoding of one integer condition. First argument: a heap-backed atom of exactly L bytes
/// with symbolic content (L = 99: a pair); argument count 0..=2 and terminator symbolic.
/// (Atom lengths are enumerated per instance: a symbolic choice between atoms of different
/// lengths is a symbolic length for CBMC -- measured > 20 min / 7 GB.)
fn one_int<const L: usize>(op: u16, width: usize, code: ErrorCode, kind: u8, on_pos: IntRule, on_neg: IntRule) {
    let mut a = Allocator::new();
    let is_pair = L == 99;
    let (n0, b0) = if L == 99 {
        let x = a.new_atom(&[1]).unwrap();
        (a.new_pair(x, NodePtr::NIL).unwrap(), [0u8; L])
    } else {
        sym_heap_atom::<L>(&mut a)
    };
    // list: up to 2 arguments, second one irrelevant
    let extra = a.new_atom(&[0x42]).unwrap();
    let n: usize = kani::any();
    kani::assume(n <= 2);
    let term_nil: bool = kani::any();
    let term = if term_nil { NodePtr::NIL } else { extra };
    let l2 = a.new_pair(extra, term).unwrap();
    let l1 = a.new_pair(n0, if n >= 2 { l2 } else { term }).unwrap();
    let list = if n >= 1 { l1 } else { term };
    let fl: u32 = kani::any();
    let r = parse_args(&a, list, op, ConsensusFlags::from_bits_retain(fl));
    let strict = fl & STRICT != 0;
    let class = if is_pair { UintClass::Invalid } else { classify_uint(&b0, width) };
    let mut want_err: Option<ErrorCode> = None;
    let mut want_kind = kind;
    let mut val: u64 = 0;
    if n == 0 {
        want_err = Some(ErrorCode::InvalidCondition);
    } else if strict && !(n == 1 && term_nil) {
        want_err = Some(ErrorCode::InvalidCondition);
    } else {
        match class {
            UintClass::Invalid => want_err = Some(code),
            UintClass::Ok(v) => val = v,
            UintClass::Pos => match on_pos {
                IntRule::Fail => want_err = Some(code),
                IntRule::Skip => want_kind = K_SKIP,
                IntRule::SkipRel => want_kind = K_SKIP_RELATIVE,
            },
            UintClass::Neg => match on_neg {
                IntRule::Fail => want_err = Some(code),
                IntRule::Skip => want_kind = K_SKIP,
                IntRule::SkipRel => want_kind = K_SKIP_RELATIVE,
            },
        }
    }
    match r {
        Ok(c) => {
            assert!(want_err.is_none(), "accepted although the rules reject");
            unsafe {
                crate::stubs::G.p_u64 = val;
                crate::stubs::G.p_u32 = val as u32;
                assert!(cond_same(&c, want_kind), "decoded integer / tautology as the rules prescribe");
            }
            std::mem::forget(c);
        }
        Err(e) => assert!(Some(e.error_code()) == want_err, "rejection code as the rules prescribe"),
    }
    // every class possible at this length is reached
    kani::cover!(want_err.is_none() && want_kind == kind || L > width + 1);
    kani::cover!(matches!(class, UintClass::Pos) && n > 0 || L <= width || L == 99);
    kani::cover!(matches!(class, UintClass::Neg) && n > 0 || L == 0 || L == 99);
    kani::cover!(want_err == Some(code) && matches!(class, UintClass::Invalid) || L == 0);
    kani::cover!(want_err == Some(ErrorCode::InvalidCondition) && n == 2);
    std::mem::forget(a);
}

use IntRule::*;
/// per opcode: quick instance at L = width + 1 (reaches Ok, positive overflow, negative,
/// non-canonical), thorough instances at L = 0, width, 10 and a pair
macro_rules! int_insts {
    ($q:ident, $t0:ident, $tw:ident, $t10:ident, $tp:ident, $op:expr, $w:expr, $wp1:expr, $code:expr, $kind:expr, $pos:expr, $neg:expr) => {
        harness!($q, 40, { one_int::<$wp1>($op, $w, $code, $kind, $pos, $neg) });
        harness!($t0, 40, { one_int::<0>($op, $w, $code, $kind, $pos, $neg) });
        harness!($tw, 40, { one_int::<$w>($op, $w, $code, $kind, $pos, $neg) });
        harness!($t10, 40, { one_int::<10>($op, $w, $code, $kind, $pos, $neg) });
        harness!($tp, 40, { one_int::<99>($op, $w, $code, $kind, $pos, $neg) });
    };
}
int_insts!(c01_args_reserve_fee, c01t_args_reserve_fee_l0, c01t_args_reserve_fee_lw, c01t_args_reserve_fee_l10, c01t_args_reserve_fee_pair,
    52, 8, 9, ErrorCode::ReserveFeeConditionFailed, K_RESERVE_FEE, Fail, Fail);
int_insts!(c01_args_assert_my_amount, c01t_args_assert_my_amount_l0, c01t_args_assert_my_amount_lw, c01t_args_assert_my_amount_l10, c01t_args_assert_my_amount_pair,
    73, 8, 9, ErrorCode::AssertMyAmountFailed, K_MY_AMOUNT, Fail, Fail);
int_insts!(c01_args_assert_my_birth_seconds, c01t_args_assert_my_birth_seconds_l0, c01t_args_assert_my_birth_seconds_lw, c01t_args_assert_my_birth_seconds_l10, c01t_args_assert_my_birth_seconds_pair,
    74, 8, 9, ErrorCode::AssertMyBirthSecondsFailed, K_MY_BIRTH_SECONDS, Fail, Fail);
int_insts!(c01_args_assert_my_birth_height, c01t_args_assert_my_birth_height_l0, c01t_args_assert_my_birth_height_lw, c01t_args_assert_my_birth_height_l10, c01t_args_assert_my_birth_height_pair,
    75, 4, 5, ErrorCode::AssertMyBirthHeightFailed, K_MY_BIRTH_HEIGHT, Fail, Fail);
int_insts!(c01_args_assert_seconds_relative, c01t_args_assert_seconds_relative_l0, c01t_args_assert_seconds_relative_lw, c01t_args_assert_seconds_relative_l10, c01t_args_assert_seconds_relative_pair,
    80, 8, 9, ErrorCode::AssertSecondsRelativeFailed, K_SECONDS_RELATIVE, Fail, SkipRel);
int_insts!(c01_args_assert_seconds_absolute, c01t_args_assert_seconds_absolute_l0, c01t_args_assert_seconds_absolute_lw, c01t_args_assert_seconds_absolute_l10, c01t_args_assert_seconds_absolute_pair,
    81, 8, 9, ErrorCode::AssertSecondsAbsoluteFailed, K_SECONDS_ABSOLUTE, Fail, Skip);
int_insts!(c01_args_assert_height_relative, c01t_args_assert_height_relative_l0, c01t_args_assert_height_relative_lw, c01t_args_assert_height_relative_l10, c01t_args_assert_height_relative_pair,
    82, 4, 5, ErrorCode::AssertHeightRelativeFailed, K_HEIGHT_RELATIVE, Fail, SkipRel);
int_insts!(c01_args_assert_height_absolute, c01t_args_assert_height_absolute_l0, c01t_args_assert_height_absolute_lw, c01t_args_assert_height_absolute_l10, c01t_args_assert_height_absolute_pair,
    83, 4, 5, ErrorCode::AssertHeightAbsoluteFailed, K_HEIGHT_ABSOLUTE, Fail, Skip);
int_insts!(c01_args_assert_before_seconds_relative, c01t_args_assert_before_seconds_relative_l0, c01t_args_assert_before_seconds_relative_lw, c01t_args_assert_before_seconds_relative_l10, c01t_args_assert_before_seconds_relative_pair,
    84, 8, 9, ErrorCode::AssertBeforeSecondsRelativeFailed, K_BEFORE_SECONDS_RELATIVE, SkipRel, Fail);
int_insts!(c01_args_assert_before_seconds_absolute, c01t_args_assert_before_seconds_absolute_l0, c01t_args_assert_before_seconds_absolute_lw, c01t_args_assert_before_seconds_absolute_l10, c01t_args_assert_before_seconds_absolute_pair,
    85, 8, 9, ErrorCode::AssertBeforeSecondsAbsoluteFailed, K_BEFORE_SECONDS_ABSOLUTE, Skip, Fail);
int_insts!(c01_args_assert_before_height_relative, c01t_args_assert_before_height_relative_l0, c01t_args_assert_before_height_relative_lw, c01t_args_assert_before_height_relative_l10, c01t_args_assert_before_height_relative_pair,
    86, 4, 5, ErrorCode::AssertBeforeHeightRelativeFailed, K_BEFORE_HEIGHT_RELATIVE, SkipRel, Fail);
int_insts!(c01_args_assert_before_height_absolute, c01t_args_assert_before_height_absolute_l0, c01t_args_assert_before_height_absolute_lw, c01t_args_assert_before_height_absolute_l10, c01t_args_assert_before_height_absolute_pair,
    87, 4, 5, ErrorCode::AssertBeforeHeightAbsoluteFailed, K_BEFORE_HEIGHT_ABSOLUTE, Skip, Fail);

// ---- AGG_SIG_*: public key (48 bytes) and message (<= 1024 bytes) ---------------------------------

pub fn aggsig_menu(a: &mut Allocator) -> ([NodePtr; 7], [Ent; 7]) {
    let k47 = a.new_atom(&[0x47; 47]).unwrap();
    let kb: [u8; 48] = kani::any();
    let k48 = a.new_atom(&kb).unwrap();
    let k49 = a.new_atom(&[0x49; 49]).unwrap();
    let mb: [u8; 3] = kani::any();
    let m3 = a.new_atom(&mb).unwrap();
    let m1024 = a.new_atom(&[0u8; 1024]).unwrap();
    let m1025 = a.new_atom(&[0u8; 1025]).unwrap();
    let p = a.new_pair(m3, NodePtr::NIL).unwrap();
    (
        [k47, k48, k49, m3, m1024, m1025, p],
        [ent_atom(47), ent_atom(48), ent_atom(49), ent_atom(3), ent_atom(1024), ent_atom(1025), Ent { is_pair: true, len: 0, bytes: [0; 10] }],
    )
}

fn agg_sig(op: u16, kind: u8) {
    let mut a = Allocator::new();
    let (menu, ents) = aggsig_menu(&mut a);
    let args = build_args(&mut a, &menu, 3);
    let fl: u32 = kani::any();
    let r = parse_args(&a, args.list, op, ConsensusFlags::from_bits_retain(fl));
    let strict = fl & STRICT != 0;
    let e0 = ents[args.pick[0]];
    let e1 = ents[args.pick[1]];
    let want_err = if args.n == 0 {
        Some(ErrorCode::InvalidCondition)
    } else if e0.is_pair || e0.len != 48 {
        Some(ErrorCode::InvalidPublicKey)
    } else if args.n == 1 {
        Some(ErrorCode::InvalidCondition)
    } else if e1.is_pair || e1.len > 1024 {
        Some(ErrorCode::InvalidMessage)
    } else if strict && !strict_ok(&args, 2) {
        Some(ErrorCode::InvalidCondition)
    } else {
        None
    };
    match r {
        Ok(c) => {
            assert!(want_err.is_none(), "accepted although the rules reject");
            unsafe {
                crate::stubs::G.p_n1 = args.arg[0];
                crate::stubs::G.p_n2 = args.arg[1];
                assert!(cond_same(&c, kind), "key and message nodes, under the right kind");
            }
            std::mem::forget(c);
        }
        Err(e) => assert!(Some(e.error_code()) == want_err, "rejection code as the rules prescribe"),
    }
    kani::cover!(want_err.is_none() && strict);
    kani::cover!(want_err.is_none() && args.n == 3);
    kani::cover!(want_err == Some(ErrorCode::InvalidPublicKey));
    kani::cover!(want_err == Some(ErrorCode::InvalidMessage));
    std::mem::forget(a);
}
harness!(c01_args_agg_sig_parent, 50, { agg_sig(43, K_AGG_SIG_PARENT) });
harness!(c01_args_agg_sig_puzzle, 50, { agg_sig(44, K_AGG_SIG_PUZZLE) });
harness!(c01_args_agg_sig_amount, 50, { agg_sig(45, K_AGG_SIG_AMOUNT) });
harness!(c01_args_agg_sig_puzzle_amount, 50, { agg_sig(46, K_AGG_SIG_PUZZLE_AMOUNT) });
harness!(c01_args_agg_sig_parent_amount, 50, { agg_sig(47, K_AGG_SIG_PARENT_AMOUNT) });
harness!(c01_args_agg_sig_parent_puzzle, 50, { agg_sig(48, K_AGG_SIG_PARENT_PUZZLE) });
harness!(c01_args_agg_sig_unsafe, 50, { agg_sig(49, K_AGG_SIG_UNSAFE) });
harness!(c01_args_agg_sig_me, 50, { agg_sig(50, K_AGG_SIG_ME) });

// ---- CREATE_COIN: puzzle hash, amount, optional memo list ------------------------------------------

/// memo shapes for the third argument
#[derive(Clone, Copy, PartialEq, Eq)]
pub enum Memo {
    /// the argument is an atom: no hint
    Atom,
    /// (hint . rest) with hint an atom of the given length
    ListAtom(usize),
    /// ((x . y) . rest): first element is a pair: no hint
    ListPair,
}

fn create_coin_args<const LA: usize>() {
    let mut a = Allocator::new();
    // first argument: puzzle hash candidates
    let phb: [u8; 32] = kani::any();
    let ph32 = a.new_atom(&phb).unwrap();
    let ph31 = a.new_atom(&[1u8; 31]).unwrap();
    let ph_ok: bool = kani::any();
    let ph = if ph_ok { ph32 } else { ph31 };
    // second: amount atom of LA bytes
    let (amt, amt_b) = sym_heap_atom::<LA>(&mut a);
    // third (optional): memo
    let h0 = NodePtr::NIL;
    let hb: [u8; 32] = kani::any();
    let h32 = a.new_atom(&hb).unwrap();
    let h33 = a.new_atom(&[3u8; 33]).unwrap();
    let h1 = a.new_atom(&[0x7f]).unwrap();
    let m_atom = a.new_atom(&[9, 9]).unwrap();
    let hsel: u8 = kani::any();
    kani::assume(hsel < 6);
    let some_pair = a.new_pair(h1, h1).unwrap();
    let (memo_first, memo_shape) = match hsel {
        0 => (h0, Memo::ListAtom(0)),
        1 => (h1, Memo::ListAtom(1)),
        2 => (h32, Memo::ListAtom(32)),
        3 => (h33, Memo::ListAtom(33)),
        4 => (some_pair, Memo::ListPair),
        _ => (NodePtr::NIL, Memo::Atom),
    };
    let memo_rest_nil: bool = kani::any();
    let memo_rest = if memo_rest_nil { NodePtr::NIL } else { h1 };
    let memo_list = a.new_pair(memo_first, memo_rest).unwrap();
    let memo = if memo_shape == Memo::Atom { m_atom } else { memo_list };
    // list: (ph amt [memo [extra]]) . T
    let n: usize = kani::any();
    kani::assume(n >= 2 && n <= 4);
    let term_nil: bool = kani::any();
    let term = if term_nil { NodePtr::NIL } else { h1 };
    let l4 = a.new_pair(h1, term).unwrap();
    let l3 = a.new_pair(memo, if n >= 4 { l4 } else { term }).unwrap();
    let l2 = a.new_pair(amt, if n >= 3 { l3 } else { term }).unwrap();
    let list = a.new_pair(ph, l2).unwrap();
    let fl: u32 = kani::any();
    let strict = fl & STRICT != 0;
    let r = parse_args(&a, list, 51, ConsensusFlags::from_bits_retain(fl));
    let class = classify_uint(&amt_b, 8);
    let mut want_hint = NodePtr::NIL;
    let want_err = if !ph_ok {
        Some(ErrorCode::InvalidPuzzleHash)
    } else {
        match class {
            UintClass::Invalid => Some(ErrorCode::InvalidCoinAmount),
            UintClass::Pos => Some(ErrorCode::CoinAmountExceedsMaximum),
            UintClass::Neg => Some(ErrorCode::CoinAmountNegative),
            UintClass::Ok(_) => {
                if n >= 3 {
                    if strict && !(n == 3 && term_nil) {
                        Some(ErrorCode::InvalidCondition)
                    } else {
                        if let Memo::ListAtom(l) = memo_shape {
                            if l <= 32 {
                                want_hint = memo_first;
                            }
                        }
                        None
                    }
                } else if strict && !term_nil {
                    Some(ErrorCode::InvalidCondition)
                } else {
                    None
                }
            }
        }
    };
    match r {
        Ok(c) => {
            assert!(want_err.is_none(), "accepted although the rules reject");
            let v = match class {
                UintClass::Ok(v) => v,
                _ => 0,
            };
            unsafe {
                crate::stubs::G.p_n1 = ph;
                crate::stubs::G.p_u64 = v;
                crate::stubs::G.p_n2 = want_hint;
                assert!(cond_same(&c, K_CREATE_COIN), "puzzle hash node, amount and hint as the rules derive");
            }
            std::mem::forget(c);
        }
        Err(e) => assert!(Some(e.error_code()) == want_err, "rejection code as the rules prescribe"),
    }
    kani::cover!(want_err.is_none() && want_hint != NodePtr::NIL || LA > 9 || LA == 1);
    kani::cover!(want_err.is_none() && n == 2 || LA > 9 || LA == 1);
    kani::cover!(want_err.is_none() && n == 4 && memo_shape == Memo::ListAtom(33) || LA > 9 || LA == 1);
    kani::cover!(want_err == Some(ErrorCode::InvalidCondition) || LA > 9 || LA == 1);
    std::mem::forget(a);
}
harness!(c01_args_create_coin_a0, 40, { create_coin_args::<0>() });
harness!(c01_args_create_coin_a1, 40, { create_coin_args::<1>() });
harness!(c01_args_create_coin_a2, 40, { create_coin_args::<2>() });
harness!(c01_args_create_coin_a8, 40, { create_coin_args::<8>() });
harness!(c01_args_create_coin_a9, 40, { create_coin_args::<9>() });
harness!(c01_args_create_coin_a10, 40, { create_coin_args::<10>() });

harness!(c01_args_create_coin_short, 40, {
    // fewer than two arguments, or a pair where an atom is required
    let mut a = Allocator::new();
    let phb: [u8; 32] = kani::any();
    let ph32 = a.new_atom(&phb).unwrap();
    let pair = a.new_pair(ph32, ph32).unwrap();
    let n: usize = kani::any();
    kani::assume(n <= 1);
    let first_is_pair: bool = kani::any();
    let t: bool = kani::any();
    let term = if t { NodePtr::NIL } else { ph32 };
    let l1 = a.new_pair(if first_is_pair { pair } else { ph32 }, term).unwrap();
    let list = if n == 1 { l1 } else { term };
    let r = parse_args(&a, list, 51, ConsensusFlags::from_bits_retain(kani::any()));
    let want = if n == 0 {
        ErrorCode::InvalidCondition
    } else if first_is_pair {
        ErrorCode::InvalidPuzzleHash
    } else {
        ErrorCode::InvalidCondition
    };
    assert!(matches!(r, Err(e) if e.error_code() == want));
    std::mem::forget(a);
});

// ---- SOFTFORK, 2-byte opcodes, ASSERT_EPHEMERAL, REMARK ------------------------------------------------

fn softfork_args<const L: usize>() {
    let mut a = Allocator::new();
    let (n0, b0) = sym_heap_atom::<L>(&mut a);
    let extra = a.new_atom(&[0x42]).unwrap();
    let n: usize = kani::any();
    kani::assume(n <= 2);
    let term = if kani::any() { NodePtr::NIL } else { extra };
    let l2 = a.new_pair(extra, term).unwrap();
    let l1 = a.new_pair(n0, if n >= 2 { l2 } else { term }).unwrap();
    let list = if n >= 1 { l1 } else { term };
    let fl: u32 = kani::any();
    let r = parse_args(&a, list, 90, ConsensusFlags::from_bits_retain(fl));
    let class = classify_uint(&b0, 4);
    let mut cost = 0u64;
    let want_err = if fl & NO_UNKNOWN != 0 {
        Some(ErrorCode::InvalidConditionOpcode)
    } else if n == 0 {
        Some(ErrorCode::InvalidCondition)
    } else {
        match class {
            UintClass::Ok(v) => {
                cost = v * 10000;
                None
            }
            _ => Some(ErrorCode::InvalidSoftforkCost),
        }
    };
    match r {
        Ok(c) => {
            assert!(want_err.is_none());
            unsafe {
                crate::stubs::G.p_u64 = cost;
                assert!(cond_same(&c, K_SOFTFORK), "cost argument scaled by 10000");
            }
            std::mem::forget(c);
        }
        Err(e) => assert!(Some(e.error_code()) == want_err),
    }
    kani::cover!(want_err.is_none() || L > 5);
    kani::cover!(want_err == Some(ErrorCode::InvalidSoftforkCost) || L == 0);
    kani::cover!(want_err == Some(ErrorCode::InvalidConditionOpcode));
    std::mem::forget(a);
}
harness!(c01_args_softfork_l5, 40, { softfork_args::<5>() });
harness!(c01t_args_softfork_l0, 40, { softfork_args::<0>() });
harness!(c01t_args_softfork_l4, 40, { softfork_args::<4>() });
harness!(c01t_args_softfork_l6, 40, { softfork_args::<6>() });

fn two_byte_opcode(op: u16) {
    let mut a = Allocator::new();
    let (menu, _ents) = hash_menu(&mut a);
    let args = build_args(&mut a, &menu, 2);
    let fl: u32 = kani::any();
    let r = parse_args(&a, args.list, op, ConsensusFlags::from_bits_retain(fl));
    if fl & NO_UNKNOWN != 0 {
        assert!(matches!(r, Err(e) if e.error_code() == ErrorCode::InvalidConditionOpcode));
    } else {
        let c = r.unwrap();
        unsafe {
            crate::stubs::G.p_u64 = COST_TABLE[(op & 0xff) as usize];
            assert!(cond_same(&c, K_SOFTFORK), "2-byte opcode: cost from the table, arguments ignored");
        }
        std::mem::forget(c);
    }
    kani::cover!(fl & NO_UNKNOWN == 0);
    std::mem::forget(a);
}
// (the table itself is checked for every opcode by c04_unknown_condition_cost_table)
harness!(c01_args_two_byte_opcode_0100, 40, { two_byte_opcode(0x0100) });
harness!(c01_args_two_byte_opcode_01ff, 40, { two_byte_opcode(0x01ff) });
harness!(c01_args_two_byte_opcode_8033, 40, { two_byte_opcode(0x8033) });
harness!(c01_args_two_byte_opcode_ffff, 40, { two_byte_opcode(0xffff) });

harness!(c01_args_assert_ephemeral, 40, {
    let mut a = Allocator::new();
    let (menu, _ents) = hash_menu(&mut a);
    let args = build_args(&mut a, &menu, 2);
    let fl: u32 = kani::any();
    let r = parse_args(&a, args.list, 76, ConsensusFlags::from_bits_retain(fl));
    if fl & STRICT != 0 && !strict_ok(&args, 0) {
        assert!(matches!(r, Err(e) if e.error_code() == ErrorCode::InvalidCondition));
    } else {
        let c = r.unwrap();
        assert!(unsafe { cond_same(&c, K_EPHEMERAL) });
        std::mem::forget(c);
    }
    kani::cover!(fl & STRICT != 0 && strict_ok(&args, 0));
    kani::cover!(fl & STRICT == 0 && args.n == 2);
    std::mem::forget(a);
});

harness!(c01_args_remark, 40, {
    let mut a = Allocator::new();
    let (menu, _ents) = hash_menu(&mut a);
    let args = build_args(&mut a, &menu, 2);
    let fl: u32 = kani::any();
    let r = parse_args(&a, args.list, 1, ConsensusFlags::from_bits_retain(fl));
    let c = r.unwrap();
    assert!(unsafe { cond_same(&c, K_SKIP) });
    std::mem::forget(c);
    std::mem::forget(a);
});

harness!(c01_args_unlisted_opcode, 40, {
    // parse_args on one-byte opcodes just outside every whitelisted range
    let mut a = Allocator::new();
    let (menu, _ents) = hash_menu(&mut a);
    let args = build_args(&mut a, &menu, 1);
    let fl: u32 = kani::any();
    let ops: [u16; 13] = [0, 2, 42, 53, 59, 68, 69, 77, 79, 88, 89, 91, 255];
    let mut i = 0;
    while i < 13 {
        assert!(!known_one_byte(ops[i] as u8));
        let r = parse_args(&a, args.list, ops[i], ConsensusFlags::from_bits_retain(fl));
        assert!(matches!(r, Err(e) if e.error_code() == ErrorCode::InvalidConditionOpcode));
        i += 1;
    }
    std::mem::forget(a);
});
