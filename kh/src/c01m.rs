//! C01 — argument decoding of SEND_MESSAGE (66) / RECEIVE_MESSAGE (67): the real `parse_args`
//! including `sanitize_message_mode` and `SpendId::parse`, against the rule table below.
//!
//! `(66 mode message . id-args)`: `mode` is a 6-bit integer, sender commitment in bits 5..3,
//! receiver commitment in bits 2..0 (parent=4, puzzle=2, amount=1). SEND_MESSAGE spells out the
//! *receiver* (low 3 bits) in its id-args, RECEIVE_MESSAGE the *sender* (high 3 bits); the other
//! three bits are passed through. id-args, in this order: parent id (32 bytes) if bit 4, puzzle
//! hash (32 bytes) if bit 2, amount (canonical u64) if bit 1 -- except that all three bits set
//! means ONE argument, the coin id.
use crate::arm::*;
use crate::c01::{hash_menu, Ent, STRICT};
use crate::c11::{classify_uint, UintClass};
use crate::h::*;
use chia_consensus::conditions::*;
use chia_consensus::flags::ConsensusFlags;
use chia_consensus::validation_error::{ErrorCode, ValidationErr};
use clvmr::allocator::{Allocator, NodePtr};

/// SEND: true = opcode 66. M: the 3-bit commitment that is spelled out. LA: length of the
/// amount atom (heap-backed, content symbolic).
fn message_args<const SEND: bool, const M: u8, const LA: usize>() {
    let mut a = Allocator::new();
    let (hmenu, hents) = hash_menu(&mut a);
    let (amt, amt_bytes) = sym_heap_atom::<LA>(&mut a);
    // the pass-through half of the mode
    let o: u8 = kani::any();
    kani::assume(o < 8);
    let mode_val: u32 = if SEND { ((o as u32) << 3) | M as u32 } else { ((M as u32) << 3) | o as u32 };
    let mode = a.new_small_number(mode_val).unwrap();
    // message: 3 symbolic bytes (the 1024-byte limit is sanitize_announce_msg, decided on the
    // announcement opcodes; a 1025-byte atom in the same allocator pushes its byte vector out of
    // CBMC's field-sensitive range and made these harnesses run out of memory)
    let b3: [u8; 3] = kani::any();
    let m3 = a.new_atom(&b3).unwrap();
    let long_msg = false;
    let msg = m3;
    // slots the rules require for M: 1 = hash, 2 = amount
    let parent = M & 4 != 0;
    let puzzle = M & 2 != 0;
    let amount = M & 1 != 0;
    let coinid = M == 7;
    let mut slot_kind = [0u8; 3];
    let mut slot_code = [ErrorCode::InvalidCondition; 3];
    let mut need = 0;
    if coinid {
        slot_kind[0] = 1;
        slot_code[0] = ErrorCode::InvalidCoinId;
        need = 1;
    } else {
        if parent {
            slot_kind[need] = 1;
            slot_code[need] = ErrorCode::InvalidParentId;
            need += 1;
        }
        if puzzle {
            slot_kind[need] = 1;
            slot_code[need] = ErrorCode::InvalidPuzzleHash;
            need += 1;
        }
        if amount {
            slot_kind[need] = 2;
            need += 1;
        }
    }
    // id-args actually present: n of them (0..=need+1), hash positions a symbolic pick between the
    // 32-byte atom and the 31-byte atom, the amount position the LA-byte atom; one surplus
    // argument possible; terminator nil or not
    let n: usize = kani::any();
    kani::assume(n <= need + 1);
    let term_nil: bool = kani::any();
    let extra = a.new_atom(&[0x42]).unwrap();
    let term = if term_nil { NodePtr::NIL } else { extra };
    let mut pick = [0usize; 3];
    let mut node = [NodePtr::NIL; 3];
    let mut i = 0;
    while i < 3 {
        // hash positions: the 32-byte atom (symbolic content) or the 31-byte atom
        let k: usize = kani::any();
        kani::assume(k == 0 || k == 1);
        pick[i] = k;
        node[i] = if i < need && slot_kind[i] == 2 { amt } else if i < need { hmenu[k] } else { extra };
        i += 1;
    }
    let mut list = term;
    let mut j = 3;
    while j > 0 {
        j -= 1;
        let p = a.new_pair(node[j], list).unwrap();
        if j < n {
            list = p;
        }
    }
    let l1 = a.new_pair(msg, list).unwrap();
    let l0 = a.new_pair(mode, l1).unwrap();
    let fl: u32 = kani::any();
    let r = parse_args(&a, l0, if SEND { 66 } else { 67 }, ConsensusFlags::from_bits_retain(fl));
    let strict = fl & STRICT != 0;

    // ---- the rules
    let mut want_err: Option<ErrorCode> = None;
    let mut val: u64 = 0;
    if long_msg {
        want_err = Some(ErrorCode::InvalidMessage);
    } else {
        let mut s = 0;
        while s < need && want_err.is_none() {
            if s >= n {
                want_err = Some(ErrorCode::InvalidCondition);
            } else if slot_kind[s] == 1 {
                let e: Ent = hents[pick[s]];
                if e.is_pair || e.len != 32 {
                    want_err = Some(slot_code[s]);
                }
            } else {
                match classify_uint(&amt_bytes, 8) {
                    UintClass::Invalid => want_err = Some(ErrorCode::InvalidCoinAmount),
                    UintClass::Pos => want_err = Some(ErrorCode::CoinAmountExceedsMaximum),
                    UintClass::Neg => want_err = Some(ErrorCode::CoinAmountNegative),
                    UintClass::Ok(v) => val = v,
                }
            }
            s += 1;
        }
        if want_err.is_none() && strict && !(n == need && term_nil) {
            want_err = Some(ErrorCode::InvalidCondition);
        }
    }
    match r {
        Ok(c) => {
            assert!(want_err.is_none(), "accepted although the rules reject");
            unsafe {
                crate::stubs::G.p_u8 = o;
                crate::stubs::G.p_n1 = msg;
                crate::stubs::G.p_u64 = val;
                // SpendId shape (arm::mk_sid numbering) and its node operands
                let (sid, n1, n2) = match M {
                    0 => (0u8, NodePtr::NIL, NodePtr::NIL),
                    7 => (1, node[0], NodePtr::NIL),
                    4 => (2, node[0], NodePtr::NIL),
                    2 => (3, node[0], NodePtr::NIL),
                    1 => (4, NodePtr::NIL, NodePtr::NIL),
                    3 => (5, node[0], NodePtr::NIL),
                    5 => (6, node[0], NodePtr::NIL),
                    _ => (7, node[0], node[1]),
                };
                crate::stubs::G.p_sid = sid;
                crate::stubs::G.p_n2 = n1;
                crate::stubs::G.p_n3 = n2;
                assert!(
                    cond_same(&c, if SEND { K_SEND_MESSAGE } else { K_RECEIVE_MESSAGE }),
                    "decoded message condition: pass-through mode bits, message node, spelled-out counterpart"
                );
            }
            std::mem::forget(c);
        }
        Err(e) => assert!(Some(e.error_code()) == want_err, "rejection code as the rules prescribe"),
    }
    kani::cover!(want_err.is_none() && strict);
    kani::cover!(want_err.is_none() && !strict && n == need + 1);
    kani::cover!(need == 0 || (want_err == Some(ErrorCode::InvalidCondition) && n < need));
    kani::cover!(need == 0 || (want_err.is_some() && want_err != Some(ErrorCode::InvalidCondition) && !long_msg));
    std::mem::forget(a);
}

macro_rules! msg_inst {
    ($name:ident, $send:expr, $m:expr, $la:expr) => {
        harness!($name, 40, { message_args::<$send, $m, $la>() });
    };
}
// quick: every SpendId shape once, alternating opcodes; amount atom of 9 bytes (reaches ok /
// positive overflow / negative / non-canonical)
msg_inst!(c01_args_send_coinid, true, 7, 9);
msg_inst!(c01_args_send_parentpuzzle, true, 6, 9);
msg_inst!(c01_args_send_puzzleamount, true, 3, 9);
msg_inst!(c01_args_send_none, true, 0, 9);
msg_inst!(c01_args_recv_parentamount, false, 5, 9);
msg_inst!(c01_args_recv_amount, false, 1, 9);
msg_inst!(c01_args_recv_parent, false, 4, 9);
msg_inst!(c01_args_recv_puzzle, false, 2, 9);
// thorough: the other opcode for every shape, other amount lengths
msg_inst!(c01t_args_recv_coinid, false, 7, 9);
msg_inst!(c01t_args_recv_parentpuzzle, false, 6, 9);
msg_inst!(c01t_args_recv_puzzleamount, false, 3, 9);
msg_inst!(c01t_args_recv_none, false, 0, 9);
msg_inst!(c01t_args_send_parentamount, true, 5, 9);
msg_inst!(c01t_args_send_amount, true, 1, 9);
msg_inst!(c01t_args_send_parent, true, 4, 9);
msg_inst!(c01t_args_send_puzzle, true, 2, 9);
msg_inst!(c01t_args_send_amount_l0, true, 1, 0);
msg_inst!(c01t_args_send_amount_l8, true, 1, 8);
msg_inst!(c01t_args_recv_puzzleamount_l1, false, 3, 1);

/// the mode argument itself: a canonical small integer with only the low 6 bits used
fn bad_mode(send: bool) {
    let mut a = Allocator::new();
    let v: u32 = kani::any();
    kani::assume(v < (1 << 20));
    let heap: bool = kani::any();
    // either a NodePtr-embedded small integer, or a heap atom (5 bytes: never a small number),
    // or a pair
    let (h5, _) = sym_heap_atom::<5>(&mut a);
    let small = a.new_small_number(v).unwrap();
    let as_pair: bool = kani::any();
    let pr = a.new_pair(small, NodePtr::NIL).unwrap();
    let mode = if as_pair { pr } else if heap { h5 } else { small };
    let b3: [u8; 3] = kani::any();
    let m3 = a.new_atom(&b3).unwrap();
    let l1 = a.new_pair(m3, NodePtr::NIL).unwrap();
    let l0 = a.new_pair(mode, l1).unwrap();
    let fl: u32 = kani::any();
    let r = parse_args(&a, l0, if send { 66 } else { 67 }, ConsensusFlags::from_bits_retain(fl));
    let spelled = if send { v & 7 } else { (v >> 3) & 7 };
    if as_pair || heap || v >= 64 {
        assert!(matches!(r, Err(ref e) if e.error_code() == ErrorCode::InvalidMessageMode), "mode must be a 6-bit canonical integer");
    } else if spelled == 0 {
        assert!(r.is_ok(), "no commitment spelled out: no id-args needed");
    } else {
        // id-args missing
        assert!(matches!(r, Err(ref e) if e.error_code() == ErrorCode::InvalidCondition));
    }
    kani::cover!(!as_pair && !heap && v == 64);
    kani::cover!(!as_pair && !heap && v < 64 && spelled == 0);
    std::mem::forget(r);
    std::mem::forget(a);
}
harness!(c01_args_send_mode, 40, { bad_mode(true) });
harness!(c01_args_recv_mode, 40, { bad_mode(false) });
