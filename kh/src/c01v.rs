//! C01 — cross-spend assertions of the real `validate_conditions`: "pass exactly when a
//! matching counterpart exists in the same bundle" (concurrent spend / puzzle, coin and
//! puzzle announcements, ephemeral rules, messages).
//!
//! The deferred facts (`ParseState`) are built directly through the H3 accessor; what each
//! arm of `parse_conditions` puts there is decided by the `arm_*` harnesses. Heap shapes are
//! concrete (k entries per set), the *values* are symbolic (first/last byte of every hash,
//! all amounts, all counters), so "matches" and "does not match" are both reachable in
//! every harness.
use crate::h::*;
use crate::stubs;
use chia_consensus::conditions::*;
use chia_consensus::flags::ConsensusFlags;
use chia_consensus::messages::{Message, SpendId};
use chia_consensus::validation_error::{ErrorCode, ValidationErr};
use chia_protocol::Bytes32;
use chia_sha2::Sha256;
use clvmr::allocator::{Allocator, NodePtr};
use std::sync::Arc;

/// 32 bytes: `fill` everywhere, bytes 0 and 31 symbolic
fn sym_hash(fill: u8) -> [u8; 32] {
    let mut h = [fill; 32];
    h[0] = kani::any();
    h[31] = kani::any();
    h
}

fn run(a: &Allocator, ret: &SpendBundleConditions, state: &ParseState) -> Option<ErrorCode> {
    let flags = ConsensusFlags::from_bits_retain(kani::any());
    validate_conditions(a, ret, state, flags).err().map(|e| e.error_code())
}

fn done(a: Allocator, ret: SpendBundleConditions, state: ParseState) {
    std::mem::forget(ret);
    std::mem::forget(state);
    std::mem::forget(a);
}

// ---- ASSERT_CONCURRENT_SPEND: passes iff the asserted coin id is spent in this bundle ----
harness!(c01_validate_concurrent_spend, 36, {
    let mut a = Allocator::new();
    let ret = SpendBundleConditions::default();
    let mut state = ParseState::default();
    let id0 = sym_hash(0x33);
    let id1 = [0x55u8; 32];
    let want = sym_hash(0x33);
    let n = a.new_atom(&want).unwrap();
    {
        let v = state.verif_view();
        v.spent_coins.insert(Arc::new(Bytes32::new(id0)), 0);
        v.spent_coins.insert(Arc::new(Bytes32::new(id1)), 1);
        v.assert_concurrent_spend.insert(n);
    }
    let err = run(&a, &ret, &state);
    let matched = want == id0 || want == id1;
    assert!(err.is_none() == matched, "ASSERT_CONCURRENT_SPEND passes iff that coin is spent in the bundle");
    if !matched {
        assert!(err == Some(ErrorCode::AssertConcurrentSpendFailed));
    }
    kani::cover!(matched);
    kani::cover!(!matched);
    done(a, ret, state);
});

// two assertions: both must be matched (no early accept after the first)
harness!(c01_validate_concurrent_spend_two_asserts, 36, {
    let mut a = Allocator::new();
    let ret = SpendBundleConditions::default();
    let mut state = ParseState::default();
    let id0 = sym_hash(0x33);
    let w0 = sym_hash(0x33);
    let w1 = sym_hash(0x33);
    let n0 = a.new_atom(&w0).unwrap();
    let n1 = a.new_atom(&w1).unwrap();
    {
        let v = state.verif_view();
        v.spent_coins.insert(Arc::new(Bytes32::new(id0)), 0);
        v.assert_concurrent_spend.insert(n0);
        v.assert_concurrent_spend.insert(n1);
    }
    let err = run(&a, &ret, &state);
    let matched = w0 == id0 && w1 == id0;
    assert!(err.is_none() == matched);
    kani::cover!(matched);
    kani::cover!(w0 == id0 && w1 != id0);
    kani::cover!(w0 != id0 && w1 == id0);
    done(a, ret, state);
});

// ---- ASSERT_CONCURRENT_PUZZLE ----
harness!(c01_validate_concurrent_puzzle, 36, {
    let mut a = Allocator::new();
    let ret = SpendBundleConditions::default();
    let mut state = ParseState::default();
    let ph0 = sym_hash(0x22);
    let ph1 = [0x66u8; 32];
    let want = sym_hash(0x22);
    let p0 = a.new_atom(&ph0).unwrap();
    let p1 = a.new_atom(&ph1).unwrap();
    let n = a.new_atom(&want).unwrap();
    {
        let v = state.verif_view();
        v.spent_puzzles.insert(p0);
        v.spent_puzzles.insert(p1);
        v.assert_concurrent_puzzle.insert(n);
    }
    let err = run(&a, &ret, &state);
    let matched = want == ph0 || want == ph1;
    assert!(err.is_none() == matched, "ASSERT_CONCURRENT_PUZZLE passes iff a coin with that puzzle hash is spent in the bundle");
    if !matched {
        assert!(err == Some(ErrorCode::AssertConcurrentPuzzleFailed));
    }
    kani::cover!(matched);
    kani::cover!(!matched);
    done(a, ret, state);
});

// ---- announcements: the asserted id must be H(coin id || message) / H(puzzle hash || message)
// of an announcement made in the bundle. H = chia_sha2::Sha256 itself (the S3 model under
// Kani, the real SHA-256 under native replay): the statement does not depend on H.
fn h2(x: &[u8], y: &[u8]) -> [u8; 32] {
    let mut h = Sha256::new();
    h.update(x);
    h.update(y);
    h.finalize()
}

harness_sha!(c01_validate_coin_announcement, 36, {
    let mut a = Allocator::new();
    let ret = SpendBundleConditions::default();
    let mut state = ParseState::default();
    let id0 = sym_hash(0x33);
    let (mn, m) = sym_heap_atom::<3>(&mut a);
    let expect = h2(&id0, &m);
    let mut want = expect;
    want[0] ^= kani::any::<u8>();
    want[31] ^= kani::any::<u8>();
    let n = a.new_atom(&want).unwrap();
    {
        let v = state.verif_view();
        v.announce_coin.insert((Arc::new(Bytes32::new(id0)), mn));
        v.assert_coin.insert(n);
    }
    let err = run(&a, &ret, &state);
    let matched = want == expect;
    assert!(err.is_none() == matched, "ASSERT_COIN_ANNOUNCEMENT passes iff sha256(coin id || message) was announced");
    if !matched {
        assert!(err == Some(ErrorCode::AssertCoinAnnouncementFailed));
    }
    kani::cover!(matched);
    kani::cover!(!matched);
    done(a, ret, state);
});

// a puzzle announcement never satisfies a coin-announcement assertion and vice versa
fn kinds_not_mixed(coin_side: bool) {
    let mut a = Allocator::new();
    let ret = SpendBundleConditions::default();
    let mut state = ParseState::default();
    let ph = sym_hash(0x22);
    let (mn, m) = sym_heap_atom::<3>(&mut a);
    let pn = a.new_atom(&ph).unwrap();
    let id = h2(&ph, &m);
    let n = a.new_atom(&id).unwrap();
    {
        let v = state.verif_view();
        if coin_side {
            // announced by a puzzle, asserted as a coin announcement
            v.announce_puzzle.insert((pn, mn));
            v.assert_coin.insert(n);
        } else {
            v.announce_coin.insert((Arc::new(Bytes32::new(ph)), mn));
            v.assert_puzzle.insert(n);
        }
    }
    let err = run(&a, &ret, &state);
    assert!(err == Some(if coin_side { ErrorCode::AssertCoinAnnouncementFailed } else { ErrorCode::AssertPuzzleAnnouncementFailed }));
    done(a, ret, state);
}
harness_sha!(c01_validate_announcement_puzzle_not_coin, 36, { kinds_not_mixed(true) });
harness_sha!(c01_validate_announcement_coin_not_puzzle, 36, { kinds_not_mixed(false) });

harness_sha!(c01_validate_puzzle_announcement, 36, {
    let mut a = Allocator::new();
    let ret = SpendBundleConditions::default();
    let mut state = ParseState::default();
    let ph = sym_hash(0x22);
    let pn = a.new_atom(&ph).unwrap();
    let (mn, m) = sym_heap_atom::<3>(&mut a);
    let expect = h2(&ph, &m);
    let mut want = expect;
    want[0] ^= kani::any::<u8>();
    want[31] ^= kani::any::<u8>();
    let n = a.new_atom(&want).unwrap();
    {
        let v = state.verif_view();
        v.announce_puzzle.insert((pn, mn));
        v.assert_puzzle.insert(n);
    }
    let err = run(&a, &ret, &state);
    let matched = want == expect;
    assert!(err.is_none() == matched, "ASSERT_PUZZLE_ANNOUNCEMENT passes iff sha256(puzzle hash || message) was announced");
    if !matched {
        assert!(err == Some(ErrorCode::AssertPuzzleAnnouncementFailed));
    }
    kani::cover!(matched);
    kani::cover!(!matched);
    done(a, ret, state);
});

// ---- ephemeral rules over two spends -------------------------------------------------------
// spend 0 creates (X, A); spend 1 spends a coin (parent Q, puzzle hash Y, amount B). The coin
// of spend 1 is ephemeral iff Q is the id of a spend of this bundle that created (Y, B).
fn eph(assert_is: bool) {
    let mut a = Allocator::new();
    let mut ret = SpendBundleConditions::default();
    let mut state = ParseState::default();
    let id0 = sym_hash(0x33);
    let id1 = [0x77u8; 32];
    let x = sym_hash(0x22);
    let y = sym_hash(0x22);
    let q = sym_hash(0x33);
    let amt_a: u64 = kani::any();
    let amt_b: u64 = kani::any();
    let p0 = a.new_atom(&[0x10; 32]).unwrap();
    let ph0 = a.new_atom(&[0x20; 32]).unwrap();
    let qn = a.new_atom(&q).unwrap();
    let yn = a.new_atom(&y).unwrap();
    let hint = a.new_atom(&[0x99; 32]).unwrap();
    let mut s0 = SpendConditions::new(p0, 1000, ph0, Arc::new(Bytes32::new(id0)), 0);
    s0.create_coin.insert(NewCoin { puzzle_hash: Bytes32::new(x), amount: amt_a, hint });
    let s1 = SpendConditions::new(qn, amt_b, yn, Arc::new(Bytes32::new(id1)), 0);
    ret.spends.push(s0);
    ret.spends.push(s1);
    {
        let v = state.verif_view();
        v.spent_coins.insert(Arc::new(Bytes32::new(id0)), 0);
        v.spent_coins.insert(Arc::new(Bytes32::new(id1)), 1);
        if assert_is {
            v.assert_ephemeral.insert(1);
        } else {
            v.assert_not_ephemeral.insert(1);
        }
    }
    let err = run(&a, &ret, &state);
    // (parent = id1 would make spend 1 its own parent, which creates nothing)
    let ephemeral = q == id0 && x == y && amt_a == amt_b;
    if assert_is {
        assert!(err.is_none() == ephemeral, "ASSERT_EPHEMERAL passes iff the coin was created in this bundle");
        if !ephemeral {
            assert!(err == Some(ErrorCode::AssertEphemeralFailed));
        }
    } else {
        assert!(err.is_none() == !ephemeral, "relative/birth conditions on a coin created in the same bundle are rejected");
        if ephemeral {
            assert!(err == Some(ErrorCode::EphemeralRelativeCondition));
        }
    }
    kani::cover!(ephemeral);
    kani::cover!(q == id0 && x == y && amt_a != amt_b);
    kani::cover!(q == id0 && x != y && amt_a == amt_b);
    kani::cover!(q != id0 && x == y && amt_a == amt_b);
    done(a, ret, state);
}
harness!(c01_validate_assert_ephemeral, 36, { eph(true) });
harness!(c01_validate_relative_on_ephemeral, 36, { eph(false) });

// ---- messages: every (src, dst, message) key must be sent exactly as often as received ----
// Two layers (a map whose *shape* depends on symbolic key bytes does not fit CBMC: > 15 min):
//  (1) `Message::make_key` with symbolic contents equals the layout
//      tag(src) || attrs(src) || tag(dst) || attrs(dst) || message, where the tag is the 3-bit
//      mode and OwnedCoinId/CoinId share tag 7 (c01_msgkey_*);
//  (2) the counting of the real `validate_conditions` (c01_validate_messages_unmatched).

fn put(out: &mut [u8; 160], n: &mut usize, b: &[u8]) {
    let mut i = 0;
    while i < b.len() {
        out[*n] = b[i];
        *n += 1;
        i += 1;
    }
}

fn key_is(k: &[u8], exp: &[u8; 160], n: usize) -> bool {
    if k.len() != n {
        return false;
    }
    let mut i = 0;
    while i < n {
        if k[i] != exp[i] {
            return false;
        }
        i += 1;
    }
    true
}

harness!(c01_msgkey_coinid_amount, 50, {
    let mut a = Allocator::new();
    let id0 = sym_hash(0x33);
    let v1: u64 = kani::any();
    let (mn, m) = sym_heap_atom::<3>(&mut a);
    let msg = Message { src: SpendId::OwnedCoinId(Arc::new(Bytes32::new(id0))), dst: SpendId::Amount(v1), msg: mn, counter: 1 };
    let k = msg.make_key(&a);
    let mut e = [0u8; 160];
    let mut n = 0;
    put(&mut e, &mut n, &[7]);
    put(&mut e, &mut n, &id0);
    put(&mut e, &mut n, &[1]);
    put(&mut e, &mut n, &v1.to_be_bytes());
    put(&mut e, &mut n, &m);
    assert!(key_is(&k, &e, n), "message key layout: mode tag, committed attributes, message");
    // the receiver's way of naming the same coin (CoinId(node)) gives the same key
    let idn = a.new_atom(&id0).unwrap();
    let msg2 = Message { src: SpendId::CoinId(idn), dst: SpendId::Amount(v1), msg: mn, counter: -1 };
    let k2 = msg2.make_key(&a);
    assert!(key_is(&k2, &e, n));
    std::mem::forget(a);
});

harness!(c01_msgkey_parentpuzzle_puzzleamount, 110, {
    let mut a = Allocator::new();
    let p = sym_hash(0x11);
    let q = sym_hash(0x22);
    let r = sym_hash(0x23);
    let (pn, qn, rn) = (a.new_atom(&p).unwrap(), a.new_atom(&q).unwrap(), a.new_atom(&r).unwrap());
    let v1: u64 = kani::any();
    let (mn, m) = sym_heap_atom::<2>(&mut a);
    let msg = Message { src: SpendId::ParentPuzzle(pn, qn), dst: SpendId::PuzzleAmount(rn, v1), msg: mn, counter: 1 };
    let k = msg.make_key(&a);
    let mut e = [0u8; 160];
    let mut n = 0;
    put(&mut e, &mut n, &[6]);
    put(&mut e, &mut n, &p);
    put(&mut e, &mut n, &q);
    put(&mut e, &mut n, &[3]);
    put(&mut e, &mut n, &r);
    put(&mut e, &mut n, &v1.to_be_bytes());
    put(&mut e, &mut n, &m);
    assert!(key_is(&k, &e, n));
    std::mem::forget(a);
});

harness!(c01_msgkey_parent_puzzle_parentamount_none, 110, {
    let mut a = Allocator::new();
    let p = sym_hash(0x11);
    let pn = a.new_atom(&p).unwrap();
    let v1: u64 = kani::any();
    let (mn, m) = sym_heap_atom::<2>(&mut a);
    // Parent / None
    let k = Message { src: SpendId::Parent(pn), dst: SpendId::None, msg: mn, counter: 1 }.make_key(&a);
    let mut e = [0u8; 160];
    let mut n = 0;
    put(&mut e, &mut n, &[4]);
    put(&mut e, &mut n, &p);
    put(&mut e, &mut n, &[0]);
    put(&mut e, &mut n, &m);
    assert!(key_is(&k, &e, n));
    // Puzzle / ParentAmount
    let k = Message { src: SpendId::Puzzle(pn), dst: SpendId::ParentAmount(pn, v1), msg: mn, counter: 1 }.make_key(&a);
    let mut e = [0u8; 160];
    let mut n = 0;
    put(&mut e, &mut n, &[2]);
    put(&mut e, &mut n, &p);
    put(&mut e, &mut n, &[5]);
    put(&mut e, &mut n, &p);
    put(&mut e, &mut n, &v1.to_be_bytes());
    put(&mut e, &mut n, &m);
    assert!(key_is(&k, &e, n));
    std::mem::forget(a);
});

// (2) with two or more messages did not fit: the map's shape depends on a key comparison
// that CBMC does not constant-fold (4 formulations, each > 10 min; see DESIGN.md s.10). What
// is decided: a lone message with counter +1 or -1 is always rejected (below), and the key
// layout (above) - so "equal key" means equal sender, receiver and message.

/// a lone send (or receive) is never accepted
harness_nocap!(c01_validate_messages_unmatched, 50, {
    let mut a = Allocator::new();
    let ret = SpendBundleConditions::default();
    let mut state = ParseState::default();
    let (mn, m) = sym_heap_atom::<2>(&mut a);
    let v1: u64 = kani::any();
    let c: bool = kani::any();
    state.verif_view().messages.push(Message { src: SpendId::Amount(v1), dst: SpendId::None, msg: mn, counter: if c { 1 } else { -1 } });
    let err = run(&a, &ret, &state);
    assert!(err == Some(ErrorCode::MessageNotSentOrReceived));
    done(a, ret, state);
});
