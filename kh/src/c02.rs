//! C02 — value conservation, no duplicate coins, coin id definition.
use crate::arm::*;
use crate::c11::{classify_uint, UintClass};
use crate::h::*;
use crate::spec::*;
use crate::stubs;
use chia_consensus::conditions::*;
use chia_consensus::consensus_constants::TEST_CONSTANTS;
use chia_consensus::flags::ConsensusFlags;
use chia_consensus::validation_error::{ErrorCode, ValidationErr};
use chia_protocol::{Bytes32, Coin};
use clvmr::allocator::{Allocator, NodePtr};
use std::sync::Arc;

/// which single path of `process_single_spend` an instance explores (each instance
/// assumes its path condition, so CBMC never has to merge heap states of different shape)
#[derive(Clone, Copy, PartialEq, Eq)]
enum Path {
    /// well-formed, not seen before, enough cost left
    Fresh,
    /// same coin id already spent in this bundle
    Dup,
    /// COST_CONDITIONS set and less than SPEND_COST left
    CostFail,
    /// amount atom is not an acceptable amount
    BadAmount,
}

/// real `process_single_spend` on (parent, puzzle hash, heap-backed amount atom of L bytes,
/// no conditions) from a state that already contains one spent coin.
fn pss<const L: usize>(path: Path) {
    let mut a = Allocator::new();
    // first and last byte of each hash symbolic, the rest fixed (stated bound)
    let mut parent_b = [0x11u8; 32];
    parent_b[0] = kani::any();
    parent_b[31] = kani::any();
    let mut ph_b = [0x22u8; 32];
    ph_b[0] = kani::any();
    ph_b[31] = kani::any();
    let (amount_n, amount_b) = sym_heap_atom::<L>(&mut a);
    let class = classify_uint(&amount_b, 8);
    kani::assume(matches!(class, UintClass::Ok(_)) == (path != Path::BadAmount));
    let parent_n = a.new_atom(&parent_b).unwrap();
    let ph_n = a.new_atom(&ph_b).unwrap();
    let mut ret = SpendBundleConditions::default();
    ret.removal_amount = kani::any();
    kani::assume(ret.removal_amount < (1u128 << 100));
    ret.condition_cost = kani::any();
    let mut state = ParseState::default();
    // the coin spent earlier in the bundle: the id this spend will get, up to one
    // symbolic byte
    let expect_id: [u8; 32] = {
        let mut h = chia_sha2::Sha256::new();
        h.update(parent_b);
        h.update(ph_b);
        h.update(amount_b);
        h.finalize()
    };
    let mut prev_id = expect_id;
    let delta: u8 = kani::any();
    kani::assume((delta == 0) == (path == Path::Dup));
    prev_id[5] ^= delta;
    // (Fresh starts from an empty bundle: with another coin present the map lookup's early
    // exit makes the vector length path-dependent, which CBMC unrolls to the unwind bound)
    if path != Path::Fresh {
        state.verif_view().spent_coins.insert(Arc::new(Bytes32::new(prev_id)), 0);
    }
    let flags_bits: u32 = kani::any();
    let flags = ConsensusFlags::from_bits_retain(flags_bits);
    let cc = flags_bits & F_COST_CONDITIONS != 0;
    let max_cost0: u64 = kani::any();
    kani::assume(ret.condition_cost.checked_add(max_cost0).is_some());
    kani::assume((cc && max_cost0 < 450_000) == (path == Path::CostFail));
    let cond_cost0 = ret.condition_cost;
    let removal0 = ret.removal_amount;
    let clvm_cost: u64 = kani::any();
    let mut max_cost = max_cost0;
    unsafe { crate::stubs::G.exp_kind = K_SKIP };
    let r = process_single_spend::<CV<EmptyVisitor>>(
        &a, &mut ret, &mut state, parent_n, ph_n, amount_n, NodePtr::NIL, flags, &mut max_cost, clvm_cost, &TEST_CONSTANTS,
    );
    let err = match r {
        Ok(_) => None,
        Err(e) => {
            let c = e.error_code();
            std::mem::forget(e);
            Some(c)
        }
    };
    match path {
        Path::BadAmount => {
            assert!(err == Some(ErrorCode::InvalidCoinAmount), "non-canonical / negative / oversized amount rejected");
        }
        Path::Dup => {
            assert!(err == Some(ErrorCode::DoubleSpend), "same coin spent twice is rejected");
        }
        Path::CostFail => {
            assert!(err == Some(ErrorCode::CostExceeded));
        }
        Path::Fresh => {
            let v = match class {
                UintClass::Ok(v) => v,
                _ => 0,
            };
            assert!(err.is_none(), "well-formed spend accepted");
            let charge = if cc { 450_000 } else { 0 };
            assert!(max_cost == max_cost0 - charge);
            assert!(ret.condition_cost == cond_cost0 + charge);
            assert!(ret.removal_amount == removal0 + v as u128, "removal amount is the sum of spent amounts");
            assert!(ret.spends.len() == 1);
            let sp = &ret.spends[0];
            assert!(sp.coin_amount == v);
            assert!(sp.parent_id == parent_n && sp.puzzle_hash == ph_n);
            assert!(sp.coin_id.as_ref().as_ref() == &expect_id[..], "reported coin id is the hash of the triple");
            assert!(sp.execution_cost == clvm_cost);
            assert!(sp.condition_cost == charge);
            assert!(sp.flags == 0 && sp.create_coin.len() == 0);
            let view = state.verif_view();
            assert!(view.spent_coins.len() == 1);
            let got = view.spent_coins.get(&Bytes32::new(expect_id));
            assert!(got == Some(&0usize));
            assert!(view.spent_puzzles.contains(&ph_n));
        }
    }
    // the path condition is satisfiable and the call returned
    kani::cover!(true);
    std::mem::forget(ret);
    std::mem::forget(state);
    std::mem::forget(a);
}

macro_rules! pss_inst {
    ($name:ident, $l:expr, $p:expr) => {
        harness_sha!($name, 36, { pss::<$l>($p) });
    };
}
pss_inst!(pss_fresh_l1, 1, Path::Fresh);
pss_inst!(psst_fresh_l2, 2, Path::Fresh);
pss_inst!(psst_fresh_l4, 4, Path::Fresh);
pss_inst!(psst_fresh_l5, 5, Path::Fresh);
pss_inst!(psst_fresh_l8, 8, Path::Fresh);
pss_inst!(pss_fresh_l9, 9, Path::Fresh);
pss_inst!(psst_dup_l1, 1, Path::Dup);
pss_inst!(psst_dup_l8, 8, Path::Dup);
pss_inst!(pss_dup_l9, 9, Path::Dup);
pss_inst!(psst_costfail_l3, 3, Path::CostFail);
pss_inst!(pss_costfail_l9, 9, Path::CostFail);
pss_inst!(psst_bad_l1, 1, Path::BadAmount);
pss_inst!(pss_bad_l2, 2, Path::BadAmount);
pss_inst!(psst_bad_l5, 5, Path::BadAmount);
pss_inst!(psst_bad_l9, 9, Path::BadAmount);
pss_inst!(psst_bad_l10, 10, Path::BadAmount);

/// small-integer amounts (stored inside the NodePtr): concrete representatives at every
/// byte-length boundary
fn pss_small(v: u32) {
    let mut a = Allocator::new();
    let parent_b = [0x11u8; 32];
    let ph_b = [0x22u8; 32];
    let amount_n = a.new_small_number(v).unwrap();
    let parent_n = a.new_atom(&parent_b).unwrap();
    let ph_n = a.new_atom(&ph_b).unwrap();
    let mut ret = SpendBundleConditions::default();
    let mut state = ParseState::default();
    let mut max_cost: u64 = 1_000_000;
    unsafe { crate::stubs::G.exp_kind = K_SKIP };
    let r = process_single_spend::<CV<EmptyVisitor>>(
        &a, &mut ret, &mut state, parent_n, ph_n, amount_n, NodePtr::NIL, ConsensusFlags::empty(), &mut max_cost, 0, &TEST_CONSTANTS,
    );
    assert!(r.is_ok());
    let (cb, cl) = canon_u64(v as u64);
    let expect_id: [u8; 32] = {
        let mut h = chia_sha2::Sha256::new();
        h.update(parent_b);
        h.update(ph_b);
        h.update(&cb[..cl]);
        h.finalize()
    };
    assert!(ret.spends.len() == 1);
    assert!(ret.spends[0].coin_amount == v as u64);
    assert!(ret.spends[0].coin_id.as_ref().as_ref() == &expect_id[..], "id = H(parent || puzzle hash || canonical amount)");
    assert!(ret.removal_amount == v as u128);
    std::mem::forget(ret);
    std::mem::forget(state);
    std::mem::forget(a);
}
harness_sha!(pss_small_0, 36, { pss_small(0) });
harness_sha!(psst_small_1, 36, { pss_small(1) });
harness_sha!(psst_small_7f, 36, { pss_small(0x7f) });
harness_sha!(pss_small_80, 36, { pss_small(0x80) });
harness_sha!(psst_small_7fff, 36, { pss_small(0x7fff) });
harness_sha!(psst_small_8000, 36, { pss_small(0x8000) });
harness_sha!(psst_small_7fffff, 36, { pss_small(0x7f_ffff) });
harness_sha!(psst_small_800000, 36, { pss_small(0x80_0000) });
harness_sha!(pss_small_3ffffff, 36, { pss_small(0x3ff_ffff) });

/// malformed coin attributes
fn pss_bad_hash<const LP: usize, const LH: usize>() {
    let mut a = Allocator::new();
    let (parent_n, _) = sym_atom::<LP>(&mut a);
    let (ph_n, _) = sym_atom::<LH>(&mut a);
    let amount_n = a.new_atom(&[1]).unwrap();
    let mut ret = SpendBundleConditions::default();
    let mut state = ParseState::default();
    let mut max_cost: u64 = kani::any();
    unsafe { crate::stubs::G.exp_kind = K_SKIP };
    let r = process_single_spend::<CV<EmptyVisitor>>(
        &a, &mut ret, &mut state, parent_n, ph_n, amount_n, NodePtr::NIL, ConsensusFlags::empty(), &mut max_cost, 0, &TEST_CONSTANTS,
    );
    let err = r.err().map(|e| e.error_code());
    if LP != 32 {
        assert!(err == Some(ErrorCode::InvalidParentId));
    } else if LH != 32 {
        assert!(err == Some(ErrorCode::InvalidPuzzleHash));
    } else {
        assert!(err.is_none());
    }
    std::mem::forget(ret);
    std::mem::forget(state);
    std::mem::forget(a);
}
harness_sha!(pss_parent_l31, 36, { pss_bad_hash::<31, 32>() });
harness_sha!(psst_parent_l33, 36, { pss_bad_hash::<33, 32>() });
harness_sha!(psst_puzzle_l31, 36, { pss_bad_hash::<32, 31>() });
harness_sha!(pss_puzzle_l33, 36, { pss_bad_hash::<32, 33>() });
harness_sha!(psst_puzzle_l0, 36, { pss_bad_hash::<32, 0>() });

// the final value check of the real validate_conditions: accepted => created + fee <= spent
harness!(c02_validate_value_conservation, 4, {
    let a = Allocator::new();
    let mut ret = SpendBundleConditions::default();
    ret.removal_amount = kani::any();
    ret.addition_amount = kani::any();
    ret.reserve_fee = kani::any();
    let state = ParseState::default();
    let r = validate_conditions(&a, &ret, &state, ConsensusFlags::from_bits_retain(kani::any()));
    let err = r.err().map(|e| e.error_code());
    // mathematical statement, in a width where nothing can wrap
    let fits = ret.addition_amount <= ret.removal_amount
        && (ret.reserve_fee as u128) <= ret.removal_amount - ret.addition_amount;
    assert!(err.is_none() == fits, "accepted iff created + reserved fee <= spent");
    if ret.addition_amount > ret.removal_amount {
        assert!(err == Some(ErrorCode::MintingCoin));
    } else if !fits {
        assert!(err == Some(ErrorCode::ReserveFeeConditionFailed));
    }
    kani::cover!(err.is_none() && ret.removal_amount > u64::MAX as u128);
    kani::cover!(err == Some(ErrorCode::MintingCoin));
    kani::cover!(err == Some(ErrorCode::ReserveFeeConditionFailed));
    std::mem::forget(ret);
    std::mem::forget(state);
    std::mem::forget(a);
});
