//! C02 — value conservation, no duplicate coins, coin id definition.
use crate::arm::*;
use crate::c11::{classify_uint, UintClass};
use crate::h::*;
use crate::spec::*;
use crate::stubs;
use chia_consensus::conditions::*;
use chia_consensus::consensus_constants::TEST_CONSTANTS;
use chia_consensus::flags::ConsensusFlags;
use chia_consensus::validation_error::{ErrorCode, ValidationErr};
use chia_protocol::{Bytes32, Coin};
use clvmr::allocator::{Allocator, NodePtr};
use std::sync::Arc;

/// real `process_single_spend` on (parent, puzzle hash, amount atom of L bytes, no
/// conditions) from a state that may already contain one spent coin.
fn pss<const L: usize>() {
    let mut a = Allocator::new();
    let parent_b: [u8; 32] = kani::any();
    let ph_b: [u8; 32] = kani::any();
    let (amount_n, amount_b) = sym_atom::<L>(&mut a);
    let parent_n = a.new_atom(&parent_b).unwrap();
    let ph_n = a.new_atom(&ph_b).unwrap();
    let mut ret = SpendBundleConditions::default();
    ret.removal_amount = kani::any();
    kani::assume(ret.removal_amount < (1u128 << 100));
    ret.condition_cost = kani::any();
    let mut state = ParseState::default();
    // a coin spent earlier in the same bundle
    let have_prev: bool = kani::any();
    let prev_id: [u8; 32] = kani::any();
    if have_prev {
        state.verif_view().spent_coins.insert(Arc::new(Bytes32::new(prev_id)), 0);
    }
    let flags_bits: u32 = kani::any();
    let flags = ConsensusFlags::from_bits_retain(flags_bits);
    let cc = flags_bits & F_COST_CONDITIONS != 0;
    let max_cost0: u64 = kani::any();
    kani::assume(ret.condition_cost.checked_add(max_cost0).is_some());
    let cond_cost0 = ret.condition_cost;
    let removal0 = ret.removal_amount;
    let clvm_cost: u64 = kani::any();
    let mut max_cost = max_cost0;
    unsafe { EXP_KIND = K_SKIP };
    let r = process_single_spend::<CV<EmptyVisitor>>(
        &a, &mut ret, &mut state, parent_n, ph_n, amount_n, NodePtr::NIL, flags, &mut max_cost, clvm_cost, &TEST_CONSTANTS,
    );
    let err = match &r {
        Ok(_) => None,
        Err(e) => Some(e.error_code()),
    };
    let class = classify_uint(&amount_b, 8);
    match class {
        UintClass::Ok(v) => {
            // the id is SHA-256(parent || puzzle hash || amount atom) ...
            let expect_id: [u8; 32] = {
                let mut h = chia_sha2::Sha256::new();
                h.update(parent_b);
                h.update(ph_b);
                h.update(amount_b);
                h.finalize()
            };
            // ... which is what the protocol-level Coin computes for the same triple
            let coin_id = Coin::new(Bytes32::new(parent_b), Bytes32::new(ph_b), v).coin_id();
            assert!(coin_id.as_ref() == &expect_id[..], "coin id agrees with Coin::coin_id");
            let dup = have_prev && prev_id == expect_id;
            if dup {
                assert!(err == Some(ErrorCode::DoubleSpend), "same coin spent twice is rejected");
            } else if cc && max_cost0 < 450_000 {
                assert!(err == Some(ErrorCode::CostExceeded));
            } else {
                assert!(err.is_none(), "well-formed spend accepted");
                let charge = if cc { 450_000 } else { 0 };
                assert!(max_cost == max_cost0 - charge);
                assert!(ret.condition_cost == cond_cost0 + charge);
                assert!(ret.removal_amount == removal0 + v as u128, "removal amount is the sum of spent amounts");
                assert!(ret.spends.len() == 1);
                let sp = &ret.spends[0];
                assert!(sp.coin_amount == v);
                assert!(sp.parent_id == parent_n && sp.puzzle_hash == ph_n);
                assert!(sp.coin_id.as_ref().as_ref() == &expect_id[..], "reported coin id is the hash of the triple");
                assert!(sp.execution_cost == clvm_cost);
                assert!(sp.condition_cost == charge);
                assert!(sp.flags == 0 && sp.create_coin.len() == 0);
                let view = state.verif_view();
                assert!(view.spent_coins.len() == have_prev as usize + 1);
                let got = view.spent_coins.get(&Bytes32::new(expect_id));
                assert!(got == Some(&0usize));
                assert!(view.spent_puzzles.contains(&ph_n));
            }
        }
        _ => {
            assert!(err == Some(ErrorCode::InvalidCoinAmount), "non-canonical / negative / oversized amount rejected");
        }
    }
    kani::cover!(err.is_none() || L > 9 || L == 1);
    kani::cover!(err == Some(ErrorCode::DoubleSpend) || L > 9 || L == 1);
    kani::cover!(err == Some(ErrorCode::InvalidCoinAmount) || L == 0);
    std::mem::forget(ret);
    std::mem::forget(state);
    std::mem::forget(a);
}

macro_rules! pss_inst {
    ($name:ident, $l:expr) => {
        harness_sha!($name, 70, { pss::<$l>() });
    };
}
pss_inst!(pss_amount_l0, 0);
pss_inst!(pss_amount_l1, 1);
pss_inst!(pss_amount_l2, 2);
pss_inst!(pss_amount_l3, 3);
pss_inst!(pss_amount_l4, 4);
pss_inst!(pss_amount_l5, 5);
pss_inst!(pss_amount_l8, 8);
pss_inst!(pss_amount_l9, 9);
pss_inst!(pss_amount_l10, 10);

/// malformed coin attributes
fn pss_bad_hash<const LP: usize, const LH: usize>() {
    let mut a = Allocator::new();
    let (parent_n, _) = sym_atom::<LP>(&mut a);
    let (ph_n, _) = sym_atom::<LH>(&mut a);
    let amount_n = a.new_atom(&[1]).unwrap();
    let mut ret = SpendBundleConditions::default();
    let mut state = ParseState::default();
    let mut max_cost: u64 = kani::any();
    unsafe { EXP_KIND = K_SKIP };
    let r = process_single_spend::<CV<EmptyVisitor>>(
        &a, &mut ret, &mut state, parent_n, ph_n, amount_n, NodePtr::NIL, ConsensusFlags::empty(), &mut max_cost, 0, &TEST_CONSTANTS,
    );
    let err = r.err().map(|e| e.error_code());
    if LP != 32 {
        assert!(err == Some(ErrorCode::InvalidParentId));
    } else if LH != 32 {
        assert!(err == Some(ErrorCode::InvalidPuzzleHash));
    } else {
        assert!(err.is_none());
    }
    std::mem::forget(ret);
    std::mem::forget(state);
    std::mem::forget(a);
}
harness_sha!(pss_parent_l31, 70, { pss_bad_hash::<31, 32>() });
harness_sha!(pss_parent_l33, 70, { pss_bad_hash::<33, 32>() });
harness_sha!(pss_puzzle_l31, 70, { pss_bad_hash::<32, 31>() });
harness_sha!(pss_puzzle_l33, 70, { pss_bad_hash::<32, 33>() });
harness_sha!(pss_puzzle_l0, 70, { pss_bad_hash::<32, 0>() });

// the final value check of the real validate_conditions: accepted => created + fee <= spent
harness!(c02_validate_value_conservation, 4, {
    let a = Allocator::new();
    let mut ret = SpendBundleConditions::default();
    ret.removal_amount = kani::any();
    ret.addition_amount = kani::any();
    ret.reserve_fee = kani::any();
    let state = ParseState::default();
    let r = validate_conditions(&a, &ret, &state, ConsensusFlags::from_bits_retain(kani::any()));
    let err = r.err().map(|e| e.error_code());
    // mathematical statement, in a width where nothing can wrap
    let fits = ret.addition_amount <= ret.removal_amount
        && (ret.reserve_fee as u128) <= ret.removal_amount - ret.addition_amount;
    assert!(err.is_none() == fits, "accepted iff created + reserved fee <= spent");
    if ret.addition_amount > ret.removal_amount {
        assert!(err == Some(ErrorCode::MintingCoin));
    } else if !fits {
        assert!(err == Some(ErrorCode::ReserveFeeConditionFailed));
    }
    kani::cover!(err.is_none() && ret.removal_amount > u64::MAX as u128);
    kani::cover!(err == Some(ErrorCode::MintingCoin));
    kani::cover!(err == Some(ErrorCode::ReserveFeeConditionFailed));
    std::mem::forget(ret);
    std::mem::forget(state);
    std::mem::forget(a);
});
