//! C03 — time-lock folding followed by checking equals the per-assertion semantics.
//!
//! Decomposition (DESIGN.md §5 C03):
//!  (1) arms::arm_lock_* prove that each lock/birth arm of the real `parse_conditions`
//!      transforms the summary exactly like `arm::spec_step` (the fold);
//!  (2) here: for the real `check_time_locks`, for every summary satisfying the
//!      representation invariant, every new assertion and EVERY chain state,
//!        check(fold(S, h)) == check(S) && holds(h)        and
//!        fold rejects as impossible  =>  no chain state satisfies S and h;
//!  (3) the checker equals the conjunction of the per-assertion definitions.
//! By induction over the conditions of a bundle: accepted by parse and by the checker
//! <=> every individual assertion holds.
use crate::arm::{spec_step, Snap, AC};
use crate::h::*;
use chia_consensus::check_time_locks::check_time_locks;
use chia_consensus::conditions::*;
use chia_consensus::flags::ConsensusFlags;
use chia_consensus::owned_conditions::{OwnedSpendBundleConditions, OwnedSpendConditions};
use chia_consensus::validation_error::{ErrorCode, ValidationErr};
use chia_consensus::verif_shim::HashMap;
use chia_protocol::{Bytes32, Coin, CoinRecord};
use clvmr::allocator::{Allocator, NodePtr};
use std::sync::Arc;

#[derive(Clone, Copy)]
pub struct Chain {
    pub height: u32,
    pub timestamp: u64,
    pub confirmed: u32,
    pub coin_ts: u64,
}

pub fn any_chain() -> Chain {
    Chain { height: kani::any(), timestamp: kani::any(), confirmed: kani::any(), coin_ts: kani::any() }
}

/// the ten lock summary fields
#[derive(Clone, Copy)]
pub struct Locks {
    pub height_absolute: u32,
    pub seconds_absolute: u64,
    pub before_height_absolute: Option<u32>,
    pub before_seconds_absolute: Option<u64>,
    pub height_relative: Option<u32>,
    pub seconds_relative: Option<u64>,
    pub before_height_relative: Option<u32>,
    pub before_seconds_relative: Option<u64>,
    pub birth_height: Option<u32>,
    pub birth_seconds: Option<u64>,
}

pub fn any_locks() -> Locks {
    Locks {
        height_absolute: kani::any(),
        seconds_absolute: kani::any(),
        before_height_absolute: kani::any(),
        before_seconds_absolute: kani::any(),
        height_relative: kani::any(),
        seconds_relative: kani::any(),
        before_height_relative: kani::any(),
        before_seconds_relative: kani::any(),
        birth_height: kani::any(),
        birth_seconds: kani::any(),
    }
}

/// The arithmetic definition of one assertion (sums saturate, never wrap).
#[derive(Clone, Copy)]
pub enum Lock {
    HeightAbsolute(u32),
    SecondsAbsolute(u64),
    BeforeHeightAbsolute(u32),
    BeforeSecondsAbsolute(u64),
    HeightRelative(u32),
    SecondsRelative(u64),
    BeforeHeightRelative(u32),
    BeforeSecondsRelative(u64),
    BirthHeight(u32),
    BirthSeconds(u64),
}

fn sat32(a: u32, b: u32) -> u32 {
    let s = a as u64 + b as u64;
    if s > u32::MAX as u64 {
        u32::MAX
    } else {
        s as u32
    }
}
fn sat64(a: u64, b: u64) -> u64 {
    let s = a as u128 + b as u128;
    if s > u64::MAX as u128 {
        u64::MAX
    } else {
        s as u64
    }
}

pub fn holds(l: Lock, c: &Chain) -> bool {
    match l {
        Lock::HeightAbsolute(x) => c.height >= x,
        Lock::SecondsAbsolute(x) => c.timestamp >= x,
        Lock::BeforeHeightAbsolute(x) => c.height < x,
        Lock::BeforeSecondsAbsolute(x) => c.timestamp < x,
        Lock::HeightRelative(x) => c.height >= sat32(c.confirmed, x),
        Lock::SecondsRelative(x) => c.timestamp >= sat64(c.coin_ts, x),
        Lock::BeforeHeightRelative(x) => c.height < sat32(c.confirmed, x),
        Lock::BeforeSecondsRelative(x) => c.timestamp < sat64(c.coin_ts, x),
        Lock::BirthHeight(x) => c.confirmed == x,
        Lock::BirthSeconds(x) => c.coin_ts == x,
    }
}

/// the summary read as a set of assertions: all of them hold
pub fn summary_holds(s: &Locks, c: &Chain) -> bool {
    holds(Lock::HeightAbsolute(s.height_absolute), c)
        && holds(Lock::SecondsAbsolute(s.seconds_absolute), c)
        && s.before_height_absolute.map_or(true, |x| holds(Lock::BeforeHeightAbsolute(x), c))
        && s.before_seconds_absolute.map_or(true, |x| holds(Lock::BeforeSecondsAbsolute(x), c))
        && s.height_relative.map_or(true, |x| holds(Lock::HeightRelative(x), c))
        && s.seconds_relative.map_or(true, |x| holds(Lock::SecondsRelative(x), c))
        && s.before_height_relative.map_or(true, |x| holds(Lock::BeforeHeightRelative(x), c))
        && s.before_seconds_relative.map_or(true, |x| holds(Lock::BeforeSecondsRelative(x), c))
        && s.birth_height.map_or(true, |x| holds(Lock::BirthHeight(x), c))
        && s.birth_seconds.map_or(true, |x| holds(Lock::BirthSeconds(x), c))
}

/// runs the REAL checker on a one-spend bundle carrying the summary
pub fn real_check(s: &Locks, c: &Chain, nowrap: bool) -> Result<(), ValidationErr> {
    let coin_id = Bytes32::new([7; 32]);
    let spend = OwnedSpendConditions {
        coin_id,
        height_relative: s.height_relative,
        seconds_relative: s.seconds_relative,
        before_height_relative: s.before_height_relative,
        before_seconds_relative: s.before_seconds_relative,
        birth_height: s.birth_height,
        birth_seconds: s.birth_seconds,
        ..Default::default()
    };
    let mut spends = Vec::new();
    spends.push(spend);
    let bundle = OwnedSpendBundleConditions {
        spends,
        height_absolute: s.height_absolute,
        seconds_absolute: s.seconds_absolute,
        before_height_absolute: s.before_height_absolute,
        before_seconds_absolute: s.before_seconds_absolute,
        ..Default::default()
    };
    let mut map = HashMap::<Bytes32, CoinRecord>::new();
    map.insert(
        coin_id,
        CoinRecord::new(Coin::new(Bytes32::new([1; 32]), Bytes32::new([2; 32]), 1), c.confirmed, 0, false, c.coin_ts),
    );
    let r = check_time_locks(&map, &bundle, c.height, c.timestamp, nowrap);
    std::mem::forget(bundle);
    std::mem::forget(map);
    r
}

// (3) the checker is the conjunction of the definitions -- all 10 fields and the whole
// chain state symbolic at full width
#[kani::proof]
#[kani::unwind(34)]
fn c03_checker_is_conjunction() {
    let s = any_locks();
    let c = any_chain();
    let r = real_check(&s, &c, true);
    assert!(r.is_ok() == summary_holds(&s, &c));
    kani::cover!(r.is_ok());
    kani::cover!(matches!(r, Err(ValidationErr::Err(ErrorCode::AssertBeforeSecondsRelativeFailed))));
    kani::cover!(matches!(r, Err(ValidationErr::Err(ErrorCode::AssertMyBirthHeightFailed))));
}

// a spend whose coin record is unknown is rejected
#[kani::proof]
#[kani::unwind(34)]
fn c03_checker_unknown_coin() {
    let s = any_locks();
    let c = any_chain();
    let mut spends = Vec::new();
    spends.push(OwnedSpendConditions { coin_id: Bytes32::new([9; 32]), ..Default::default() });
    let bundle = OwnedSpendBundleConditions { spends, ..Default::default() };
    let map = HashMap::<Bytes32, CoinRecord>::new();
    let r = check_time_locks(&map, &bundle, c.height, c.timestamp, true);
    assert!(matches!(r, Err(ValidationErr::Err(ErrorCode::InvalidCoinId))));
    std::mem::forget(bundle);
}

/// representation invariant of a summary produced by parse_conditions (§8)
fn inv(s: &Locks) -> bool {
    let a = match (s.seconds_relative, s.before_seconds_relative) {
        (Some(x), Some(b)) => x < b,
        _ => true,
    };
    let b = match (s.height_relative, s.before_height_relative) {
        (Some(x), Some(b)) => x < b,
        _ => true,
    };
    a && b
}

fn to_snap(s: &Locks) -> Snap {
    let mut z: Snap = unsafe { std::mem::zeroed() };
    z.height_absolute = s.height_absolute;
    z.seconds_absolute = s.seconds_absolute;
    z.before_height_absolute = s.before_height_absolute;
    z.before_seconds_absolute = s.before_seconds_absolute;
    z.height_relative = s.height_relative;
    z.seconds_relative = s.seconds_relative;
    z.before_height_relative = s.before_height_relative;
    z.before_seconds_relative = s.before_seconds_relative;
    z.birth_height = s.birth_height;
    z.birth_seconds = s.birth_seconds;
    z.max_cost = u64::MAX;
    z
}
fn from_snap(z: &Snap) -> Locks {
    Locks {
        height_absolute: z.height_absolute,
        seconds_absolute: z.seconds_absolute,
        before_height_absolute: z.before_height_absolute,
        before_seconds_absolute: z.before_seconds_absolute,
        height_relative: z.height_relative,
        seconds_relative: z.seconds_relative,
        before_height_relative: z.before_height_relative,
        before_seconds_relative: z.before_seconds_relative,
        birth_height: z.birth_height,
        birth_seconds: z.birth_seconds,
    }
}

fn lock_to_ac(l: Lock) -> (u16, AC) {
    match l {
        Lock::HeightAbsolute(x) => (83, AC::HeightAbsolute(x)),
        Lock::SecondsAbsolute(x) => (81, AC::SecondsAbsolute(x)),
        Lock::BeforeHeightAbsolute(x) => (87, AC::BeforeHeightAbsolute(x)),
        Lock::BeforeSecondsAbsolute(x) => (85, AC::BeforeSecondsAbsolute(x)),
        Lock::HeightRelative(x) => (82, AC::HeightRelative(x)),
        Lock::SecondsRelative(x) => (80, AC::SecondsRelative(x)),
        Lock::BeforeHeightRelative(x) => (86, AC::BeforeHeightRelative(x)),
        Lock::BeforeSecondsRelative(x) => (84, AC::BeforeSecondsRelative(x)),
        Lock::BirthHeight(x) => (75, AC::MyBirthHeight(x)),
        Lock::BirthSeconds(x) => (74, AC::MyBirthSeconds(x)),
    }
}

// (2) one fold step, against the REAL checker, for every chain state
fn fold_step(l: Lock) {
    let s = any_locks();
    kani::assume(inv(&s));
    let c = any_chain();
    let (op, ac) = lock_to_ac(l);
    let mut z = to_snap(&s);
    let e = spec_step(&mut z, op, ac, 0);
    let before = real_check(&s, &c, true).is_ok();
    match e {
        None => {
            let s2 = from_snap(&z);
            // the fold keeps the invariant ...
            assert!(inv(&s2));
            // ... and checking the folded summary == old verdict && the new assertion
            let after = real_check(&s2, &c, true).is_ok();
            assert!(after == (before && holds(l, &c)));
        }
        Some(code) => {
            // rejected at parse time: only if NO chain state satisfies old && new
            assert!(!(before && holds(l, &c)));
            assert!(
                code == ErrorCode::ImpossibleSecondsRelativeConstraints
                    || code == ErrorCode::ImpossibleHeightRelativeConstraints
                    || code == ErrorCode::AssertMyBirthHeightFailed
                    || code == ErrorCode::AssertMyBirthSecondsFailed
            );
        }
    }
    kani::cover!(e.is_none() && before && holds(l, &c));
    kani::cover!(e.is_none() && before && !holds(l, &c));
}

macro_rules! fold_inst {
    ($name:ident, $t:ty, $l:path) => {
        #[kani::proof]
        #[kani::unwind(34)]
        fn $name() {
            let x: $t = kani::any();
            fold_step($l(x));
        }
    };
}
fold_inst!(c03_fold_height_absolute, u32, Lock::HeightAbsolute);
fold_inst!(c03_fold_seconds_absolute, u64, Lock::SecondsAbsolute);
fold_inst!(c03_fold_before_height_absolute, u32, Lock::BeforeHeightAbsolute);
fold_inst!(c03_fold_before_seconds_absolute, u64, Lock::BeforeSecondsAbsolute);
fold_inst!(c03_fold_height_relative, u32, Lock::HeightRelative);
fold_inst!(c03_fold_seconds_relative, u64, Lock::SecondsRelative);
fold_inst!(c03_fold_before_height_relative, u32, Lock::BeforeHeightRelative);
fold_inst!(c03_fold_before_seconds_relative, u64, Lock::BeforeSecondsRelative);
fold_inst!(c03_fold_birth_height, u32, Lock::BirthHeight);
fold_inst!(c03_fold_birth_seconds, u64, Lock::BirthSeconds);

// absolute impossible constraints are detected by the real validate_conditions:
// rejected as impossible only if no chain state satisfies the absolute part
harness!(c03_validate_impossible_absolute, 4, {
    let a = Allocator::new();
    let mut ret = SpendBundleConditions::default();
    ret.height_absolute = kani::any();
    ret.seconds_absolute = kani::any();
    ret.before_height_absolute = kani::any();
    ret.before_seconds_absolute = kani::any();
    let state = ParseState::default();
    let r = validate_conditions(&a, &ret, &state, ConsensusFlags::empty());
    let c = any_chain();
    let abs_ok = holds(Lock::HeightAbsolute(ret.height_absolute), &c)
        && holds(Lock::SecondsAbsolute(ret.seconds_absolute), &c)
        && ret.before_height_absolute.map_or(true, |x| holds(Lock::BeforeHeightAbsolute(x), &c))
        && ret.before_seconds_absolute.map_or(true, |x| holds(Lock::BeforeSecondsAbsolute(x), &c));
    match &r {
        Ok(()) => {}
        Err(e) => {
            let code = e.error_code();
            assert!(
                code == ErrorCode::ImpossibleHeightAbsoluteConstraints
                    || code == ErrorCode::ImpossibleSecondsAbsoluteConstraints
            );
            assert!(!abs_ok);
        }
    }
    // and conversely: an accepted bundle has a satisfying chain state for its
    // absolute part (witness: height = height_absolute, timestamp = seconds_absolute)
    if r.is_ok() {
        let w = Chain { height: ret.height_absolute, timestamp: ret.seconds_absolute, confirmed: 0, coin_ts: 0 };
        assert!(
            holds(Lock::HeightAbsolute(ret.height_absolute), &w)
                && ret.before_height_absolute.map_or(true, |x| holds(Lock::BeforeHeightAbsolute(x), &w))
                && ret.before_seconds_absolute.map_or(true, |x| holds(Lock::BeforeSecondsAbsolute(x), &w))
        );
    }
    kani::cover!(r.is_ok());
    kani::cover!(r.is_err());
    std::mem::forget(ret);
    std::mem::forget(state);
    std::mem::forget(a);
});

// legacy (wrapping) mode differs from the saturating mode only when a sum overflows
#[kani::proof]
#[kani::unwind(34)]
fn c03_nowrap_differs_only_on_overflow() {
    let s = any_locks();
    let c = any_chain();
    let no_overflow = s.height_relative.map_or(true, |x| c.confirmed.checked_add(x).is_some())
        && s.before_height_relative.map_or(true, |x| c.confirmed.checked_add(x).is_some())
        && s.seconds_relative.map_or(true, |x| c.coin_ts.checked_add(x).is_some())
        && s.before_seconds_relative.map_or(true, |x| c.coin_ts.checked_add(x).is_some());
    let a = real_check(&s, &c, true).is_ok();
    let b = real_check(&s, &c, false).is_ok();
    if no_overflow {
        assert!(a == b);
    }
    kani::cover!(!no_overflow && a != b);
}

// the owned (Python-facing) summary carries the lock fields unchanged
harness!(c03_owned_copy_preserves_locks, 4, {
    let mut a = Allocator::new();
    let parent = a.new_atom(&[1u8; 32]).unwrap();
    let ph = a.new_atom(&[2u8; 32]).unwrap();
    let l = any_locks();
    let mut sp = SpendConditions::new(parent, kani::any(), ph, Arc::new(Bytes32::new([3; 32])), 0);
    sp.height_relative = l.height_relative;
    sp.seconds_relative = l.seconds_relative;
    sp.before_height_relative = l.before_height_relative;
    sp.before_seconds_relative = l.before_seconds_relative;
    sp.birth_height = l.birth_height;
    sp.birth_seconds = l.birth_seconds;
    let mut sb = SpendBundleConditions::default();
    sb.height_absolute = l.height_absolute;
    sb.seconds_absolute = l.seconds_absolute;
    sb.before_height_absolute = l.before_height_absolute;
    sb.before_seconds_absolute = l.before_seconds_absolute;
    sb.spends.push(sp);
    let o = OwnedSpendBundleConditions::from(&a, sb);
    assert!(o.height_absolute == l.height_absolute);
    assert!(o.seconds_absolute == l.seconds_absolute);
    assert!(o.before_height_absolute == l.before_height_absolute);
    assert!(o.before_seconds_absolute == l.before_seconds_absolute);
    assert!(o.spends.len() == 1);
    let s = &o.spends[0];
    assert!(s.height_relative == l.height_relative);
    assert!(s.seconds_relative == l.seconds_relative);
    assert!(s.before_height_relative == l.before_height_relative);
    assert!(s.before_seconds_relative == l.before_seconds_relative);
    assert!(s.birth_height == l.birth_height);
    assert!(s.birth_seconds == l.birth_seconds);
    kani::cover!(s.birth_seconds.is_some());
    std::mem::forget(o);
    std::mem::forget(a);
});
