//! C04 — cost charged equals the consensus cost table and the limit is exact
//! (condition and spend costs; CLVM/byte cost is outside, see DESIGN.md).
//!
//! Pre-charge per opcode, the Softfork arm, SPEND_COST and "fails with CostExceeded iff
//! remaining < charge" are decided by the arm_* / pss_* harnesses with symbolic flags
//! and a symbolic remaining cost (arm::spec_precharge is the table). Here: the unknown
//! opcode cost table, subtract_cost and the unknown-opcode path.
use crate::arm::*;
use crate::cost_table::COST_TABLE;
use crate::h::*;
use chia_consensus::conditions::*;
use chia_consensus::opcodes::*;
use chia_consensus::run_block_generator::subtract_cost;
use chia_consensus::validation_error::{ErrorCode, ValidationErr};
use clvmr::allocator::{Allocator, NodePtr};

#[kani::proof]
fn c04_unknown_condition_cost_table() {
    let op: u16 = kani::any();
    let got = compute_unknown_condition_cost(op);
    if op < 256 {
        assert!(got == 0);
    } else {
        assert!(got == COST_TABLE[(op & 0xff) as usize]);
    }
    kani::cover!(op >= 256 && got == 517000000);
    kani::cover!(op >= 256 && got == 100);
}

#[kani::proof]
fn c04_cost_constants() {
    // the table of fixed charges, written out independently
    assert!(CREATE_COIN_COST == 1_800_000);
    assert!(AGG_SIG_COST == 1_200_000);
    assert!(SPEND_COST == 450_000);
    assert!(NEW_CREATE_COIN_COST == 1_350_000);
    assert!(MESSAGE_CONDITION_COST == 700);
    assert!(GENERIC_CONDITION_COST == 200);
    // a spend plus its CREATE_COIN costs the same before and after the fork
    assert!(SPEND_COST + NEW_CREATE_COIN_COST == CREATE_COIN_COST);
}

#[kani::proof]
fn c04_subtract_cost_exact() {
    let left: u64 = kani::any();
    let sub: u64 = kani::any();
    let mut l = left;
    let r = subtract_cost(&mut l, sub);
    if sub <= left {
        assert!(r.is_ok() && l == left - sub);
    } else {
        assert!(matches!(r, Err(ValidationErr::Err(ErrorCode::CostExceeded))));
        assert!(l == left);
    }
    kani::cover!(sub == left);
    kani::cover!(left.checked_add(1) == Some(sub));
}

// composition lemma, decided by the solver for 3 steps: a countdown that fails at the
// first step whose charge exceeds the remainder succeeds from limit L iff L >= sum
#[kani::proof]
fn c04_countdown_total_and_total_minus_one() {
    let c: [u64; 3] = kani::any();
    kani::assume(c[0] <= 1 << 40 && c[1] <= 1 << 40 && c[2] <= 1 << 40);
    let total = c[0] + c[1] + c[2];
    let limit: u64 = kani::any();
    let mut l = limit;
    let mut ok = true;
    let mut i = 0;
    while i < 3 {
        if subtract_cost(&mut l, c[i]).is_err() {
            ok = false;
            break;
        }
        i += 1;
    }
    assert!(ok == (limit >= total));
    if ok {
        assert!(limit - l == total);
    }
    kani::cover!(limit == total);
    kani::cover!(total > 0 && limit == total - 1);
}

// an opcode that is not on the whitelist: rejected under NO_UNKNOWN_CONDS, otherwise
// skipped, charged GENERIC under COST_CONDITIONS, and parse_args is never consulted
fn unknown_opcode<const L: usize>() {
    let (mut w, spend) = world_with(SYM_COSTS);
    let b: [u8; L] = kani::any();
    // not a whitelisted opcode
    if L == 1 {
        let x = b[0];
        kani::assume(!(x == 1 || (x >= 43 && x <= 52) || (x >= 60 && x <= 67) || (x >= 70 && x <= 76) || (x >= 80 && x <= 87) || x == 90));
    }
    if L == 2 {
        kani::assume(b[0] == 0);
    }
    let opn = w.a.new_atom(&b).unwrap();
    let c = w.a.new_pair(opn, NodePtr::NIL).unwrap();
    let list = w.a.new_pair(c, NodePtr::NIL).unwrap();
    let mut o = run_empty(&mut w, spend, list, K_SKIP);
    // expected: like a Skip whose pre-charge is GENERIC (op 2 stands for "generic")
    if w.flags & 0x2_0000 != 0 {
        assert!(o.err == Some(ErrorCode::InvalidConditionOpcode));
    } else {
        check_outcome(&mut w, &mut o, 2, AC::Skip);
    }
    assert!(unsafe { crate::stubs::G.cv_calls } == 0);
    kani::cover!(o.err.is_none());
    kani::cover!(o.err == Some(ErrorCode::CostExceeded));
    kani::cover!(o.err == Some(ErrorCode::InvalidConditionOpcode));
    std::mem::forget(w);
}
arm_harness!(arm_cost_unknown_opcode_l0, crate::arm::pa_skip, 6, { unknown_opcode::<0>() });
arm_harness!(arm_cost_unknown_opcode_l1, crate::arm::pa_skip, 6, { unknown_opcode::<1>() });
arm_harness!(arm_cost_unknown_opcode_l2, crate::arm::pa_skip, 6, { unknown_opcode::<2>() });
arm_harness!(arm_cost_unknown_opcode_l3, crate::arm::pa_skip, 6, { unknown_opcode::<3>() });
