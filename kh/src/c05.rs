//! C05 — signature acceptance binds each AGG_SIG condition to its domain-separated text
//! (message construction and what is handed to the verifier; the pairing itself is blst,
//! see DESIGN.md C05/C15).
use crate::arm::*;
use crate::h::*;
use crate::spec::*;
use crate::stubs::{self, G, VLOG};
use chia_bls::{PublicKey, Signature};
use chia_consensus::conditions::*;
use chia_consensus::consensus_constants::{ConsensusConstants, TEST_CONSTANTS};
use chia_consensus::flags::ConsensusFlags;
use chia_consensus::make_aggsig_final_message::make_aggsig_final_message;
use chia_consensus::owned_conditions::OwnedSpendConditions;
use chia_consensus::validation_error::{ErrorCode, ValidationErr};
use chia_protocol::{Bytes, Bytes32, Coin};
use clvmr::allocator::{Allocator, NodePtr};

pub const MSG_CAP: usize = 160;

/// The rule: final signed text = message || coin attributes selected by the opcode ||
/// the network's domain-separation constant for that opcode (none for AGG_SIG_UNSAFE).
pub fn spec_final_message(
    op: u16,
    msg: &[u8],
    parent: &[u8; 32],
    ph: &[u8; 32],
    amount: u64,
    coin_id: &[u8; 32],
    c: &ConsensusConstants,
) -> ([u8; MSG_CAP], usize) {
    let mut out = [0u8; MSG_CAP];
    let mut n = 0;
    let mut put = |b: &[u8], out: &mut [u8; MSG_CAP], n: &mut usize| {
        let mut i = 0;
        while i < b.len() {
            out[*n] = b[i];
            *n += 1;
            i += 1;
        }
    };
    put(msg, &mut out, &mut n);
    let (cb, cl) = canon_u64(amount);
    match op {
        43 => {
            put(parent, &mut out, &mut n);
            put(c.agg_sig_parent_additional_data.as_ref(), &mut out, &mut n);
        }
        44 => {
            put(ph, &mut out, &mut n);
            put(c.agg_sig_puzzle_additional_data.as_ref(), &mut out, &mut n);
        }
        45 => {
            put(&cb[..cl], &mut out, &mut n);
            put(c.agg_sig_amount_additional_data.as_ref(), &mut out, &mut n);
        }
        46 => {
            put(ph, &mut out, &mut n);
            put(&cb[..cl], &mut out, &mut n);
            put(c.agg_sig_puzzle_amount_additional_data.as_ref(), &mut out, &mut n);
        }
        47 => {
            put(parent, &mut out, &mut n);
            put(&cb[..cl], &mut out, &mut n);
            put(c.agg_sig_parent_amount_additional_data.as_ref(), &mut out, &mut n);
        }
        48 => {
            put(parent, &mut out, &mut n);
            put(ph, &mut out, &mut n);
            put(c.agg_sig_parent_puzzle_additional_data.as_ref(), &mut out, &mut n);
        }
        50 => {
            put(coin_id, &mut out, &mut n);
            put(c.agg_sig_me_additional_data.as_ref(), &mut out, &mut n);
        }
        _ => {}
    }
    (out, n)
}

fn ends_with(m: &[u8], suffix: &[u8]) -> bool {
    if m.len() < suffix.len() {
        return false;
    }
    let off = m.len() - suffix.len();
    let mut i = 0;
    while i < suffix.len() {
        if m[off + i] != suffix[i] {
            return false;
        }
        i += 1;
    }
    true
}

/// AGG_SIG_UNSAFE messages may not end in any of the seven domain constants
fn unsafe_banned(m: &[u8], c: &ConsensusConstants) -> bool {
    ends_with(m, c.agg_sig_me_additional_data.as_ref())
        || ends_with(m, c.agg_sig_parent_additional_data.as_ref())
        || ends_with(m, c.agg_sig_puzzle_additional_data.as_ref())
        || ends_with(m, c.agg_sig_amount_additional_data.as_ref())
        || ends_with(m, c.agg_sig_puzzle_amount_additional_data.as_ref())
        || ends_with(m, c.agg_sig_parent_amount_additional_data.as_ref())
        || ends_with(m, c.agg_sig_parent_puzzle_additional_data.as_ref())
}

/// one AGG_SIG condition through the real parse_conditions
fn agg_sig_arm<const LM: usize>(op: u16, kind: u8, idx: usize, amount: u64) {
    let (mut w, mut spend) = world_with(SYM_COSTS);
    spend.coin_amount = amount;
    let kb: [u8; 48] = kani::any();
    let key = w.a.new_atom(&kb).unwrap();
    let (msg, mb) = sym_heap_atom::<LM>(&mut w.a);
    unsafe {
        G.p_n1 = key;
        G.p_n2 = msg;
    }
    // a key is acceptable iff it decodes as a point of the prime-order subgroup and is not infinity
    let key_ok = kb[0] != 0xEE && kb[0] != 0xC0 && !stubs::pk_is_off_subgroup(&kb);
    let banned = idx == 7 && unsafe_banned(&mb, &TEST_CONSTANTS);
    let list = one_condition_args(&mut w.a, op, &[key, msg]);
    let mut o = run_empty(&mut w, spend, list, kind);
    check_outcome(&mut w, &mut o, op, AC::AggSig(idx, key_ok, banned));
    if o.err.is_none() {
        let sp = &w.ret.spends[0];
        let v = match idx {
            0 => &sp.agg_sig_me,
            1 => &sp.agg_sig_parent,
            2 => &sp.agg_sig_puzzle,
            3 => &sp.agg_sig_amount,
            4 => &sp.agg_sig_puzzle_amount,
            5 => &sp.agg_sig_parent_amount,
            6 => &sp.agg_sig_parent_puzzle,
            _ => &w.ret.agg_sig_unsafe,
        };
        // the summary lists the key and the raw message node
        let (k, m) = &v[v.len() - 1];
        assert!(stubs::pk_bytes(k) == kb, "listed key is the condition's key");
        assert!(*m == msg, "listed message is the condition's message node");
        if w.flags & 0x1_0000 == 0 {
            // the pair handed to the verifier
            let (pk, text) = &w.state.pkm_pairs[w.state.pkm_pairs.len() - 1];
            assert!(stubs::pk_bytes(pk) == kb, "verifier key is the condition's key");
            let (want, wl) = spec_final_message(op, &mb, &w.parent_bytes, &w.ph_bytes, amount, &w.coin_id, &TEST_CONSTANTS);
            assert!(text.len() == wl, "signed text length");
            let t: &[u8] = text.as_ref();
            let mut i = 0;
            while i < wl {
                assert!(t[i] == want[i], "signed text = message || coin attributes || domain constant");
                i += 1;
            }
        }
    }
    kani::cover!(o.err.is_none() && w.flags & 0x1_0000 == 0);
    kani::cover!(o.err.is_none() && w.flags & 0x1_0000 != 0);
    kani::cover!(o.err == Some(ErrorCode::InvalidPublicKey) && kb[0] == 0xC0);
    kani::cover!(o.err == Some(ErrorCode::InvalidPublicKey) && stubs::pk_is_off_subgroup(&kb), "off-subgroup key rejected");
    std::mem::forget(w);
}

sig_harness!(arm_sig_me_m32, crate::arm::pa_agg_sig_me, 130, { agg_sig_arm::<32>(50, K_AGG_SIG_ME, 0, 0x8000) });
sig_harness!(arm_sig_parent_m1, crate::arm::pa_agg_sig_parent, 130, { agg_sig_arm::<1>(43, K_AGG_SIG_PARENT, 1, 1) });
sig_harness!(arm_sig_puzzle_m0, crate::arm::pa_agg_sig_puzzle, 130, { agg_sig_arm::<0>(44, K_AGG_SIG_PUZZLE, 2, 1) });
sig_harness!(arm_sig_amount_m3, crate::arm::pa_agg_sig_amount, 130, { agg_sig_arm::<3>(45, K_AGG_SIG_AMOUNT, 3, 0xffff_ffff_ffff_ffff) });
sig_harness!(arm_sig_puzzle_amount_m3, crate::arm::pa_agg_sig_puzzle_amount, 130, { agg_sig_arm::<3>(46, K_AGG_SIG_PUZZLE_AMOUNT, 4, 0) });
sig_harness!(arm_sig_parent_amount_m3, crate::arm::pa_agg_sig_parent_amount, 130, { agg_sig_arm::<3>(47, K_AGG_SIG_PARENT_AMOUNT, 5, 0x80) });
sig_harness!(arm_sig_parent_puzzle_m33, crate::arm::pa_agg_sig_parent_puzzle, 130, { agg_sig_arm::<33>(48, K_AGG_SIG_PARENT_PUZZLE, 6, 7) });
sig_harness!(arm_sig_unsafe_m31, crate::arm::pa_agg_sig_unsafe, 130, { agg_sig_arm::<31>(49, K_AGG_SIG_UNSAFE, 7, 7) });
sig_harness!(arm_sig_unsafe_m32, crate::arm::pa_agg_sig_unsafe, 130, { agg_sig_arm::<32>(49, K_AGG_SIG_UNSAFE, 7, 7) });
sig_harness!(arm_sig_unsafe_m34, crate::arm::pa_agg_sig_unsafe, 130, { agg_sig_arm::<34>(49, K_AGG_SIG_UNSAFE, 7, 7) });

// the helper that recomputes a spend's final signed message yields the same text
fn final_message_helper(op: u16, amount: u64) {
    let parent: [u8; 32] = kani::any();
    let ph: [u8; 32] = kani::any();
    let mb: [u8; 3] = kani::any();
    let spend = OwnedSpendConditions {
        parent_id: Bytes32::new(parent),
        puzzle_hash: Bytes32::new(ph),
        coin_amount: amount,
        ..Default::default()
    };
    let mut msg: Vec<u8> = Vec::new();
    msg.extend_from_slice(&mb);
    make_aggsig_final_message(op, &mut msg, &spend, &TEST_CONSTANTS);
    // AGG_SIG_ME binds the coin id of (parent, puzzle hash, amount)
    let id: [u8; 32] = {
        let c = Coin::new(Bytes32::new(parent), Bytes32::new(ph), amount).coin_id();
        let mut o = [0u8; 32];
        o.copy_from_slice(c.as_ref());
        o
    };
    let (want, wl) = spec_final_message(op, &mb, &parent, &ph, amount, &id, &TEST_CONSTANTS);
    assert!(msg.len() == wl);
    let mut i = 0;
    while i < wl {
        assert!(msg[i] == want[i], "helper text = message || coin attributes || domain constant");
        i += 1;
    }
    kani::cover!(wl >= 3);
    std::mem::forget(msg);
    std::mem::forget(spend);
}
harness_sha!(c05_final_message_parent, 130, { final_message_helper(43, 5) });
harness_sha!(c05_final_message_puzzle, 130, { final_message_helper(44, 5) });
harness_sha!(c05_final_message_amount, 130, { final_message_helper(45, 0x8000_0000) });
harness_sha!(c05_final_message_puzzle_amount, 130, { final_message_helper(46, 0x7f) });
harness_sha!(c05_final_message_parent_amount, 130, { final_message_helper(47, 0xffff_ffff_ffff_ffff) });
harness_sha!(c05_final_message_parent_puzzle, 130, { final_message_helper(48, 5) });
harness_sha!(c05_final_message_me, 130, { final_message_helper(50, 0x80) });
harness_sha!(c05_final_message_unsafe, 130, { final_message_helper(49, 5) });
harness_sha!(c05_final_message_other_opcode, 130, { final_message_helper(51, 5) });

// validate_signature: hands exactly pkm_pairs, in order, to whichever verifier, and fails
// iff the verifier's verdict is false
#[kani::proof]
#[kani::unwind(60)]
#[kani::stub(std::hash::RandomState::new, crate::stubs::fixed_keys)]
#[kani::stub(std::vec::Vec::reserve, crate::stubs::reserve_stub)]
#[kani::stub(chia_consensus::conditions::aggregate_verify, crate::stubs::aggregate_verify_stub)]
#[kani::stub(chia_consensus::conditions::BlsCache::aggregate_verify, crate::stubs::cache_aggregate_verify_stub)]
fn c05_validate_signature_passes_pairs() {
    let mut state = ParseState::default();
    let k0: [u8; 48] = kani::any();
    let k1: [u8; 48] = kani::any();
    let m0: [u8; 3] = kani::any();
    let m1: [u8; 5] = kani::any();
    let n: usize = kani::any();
    kani::assume(n <= 2);
    let mut b0 = Vec::new();
    b0.extend_from_slice(&m0);
    let mut b1 = Vec::new();
    b1.extend_from_slice(&m1);
    // always two entries in the vector (no symbolic heap shape); n says how many count
    kani::assume(n == 2);
    state.pkm_pairs.push((stubs::pk_token(&k0), Bytes::new(b0)));
    state.pkm_pairs.push((stubs::pk_token(&k1), Bytes::new(b1)));
    let fl: u32 = kani::any();
    let verdict: bool = kani::any();
    let use_cache: bool = kani::any();
    unsafe {
        G.bls_verdict = verdict;
    }
    let sig = Signature::default();
    let cache_storage = std::mem::MaybeUninit::<chia_bls::BlsCache>::zeroed();
    let cache: Option<&chia_bls::BlsCache> = if use_cache { Some(unsafe { &*cache_storage.as_ptr() }) } else { None };
    let r = validate_signature(&state, &sig, ConsensusFlags::from_bits_retain(fl), cache);
    if fl & 0x1_0000 != 0 {
        assert!(r.is_ok());
        assert!(unsafe { G.bls_calls } == 0, "signature checking disabled: verifier not consulted");
    } else {
        assert!(r.is_ok() == verdict, "accepted iff the verifier accepts");
        if !verdict {
            assert!(matches!(r, Err(ValidationErr::Err(ErrorCode::BadAggregateSignature))));
        }
        unsafe {
            assert!(G.bls_calls == 1);
            assert!(VLOG.cached_path == use_cache);
            assert!(VLOG.n == 2, "every pair, no extra pair");
            assert!(VLOG.key[0] == k0 && VLOG.key[1] == k1, "keys in order");
            assert!(VLOG.msg_len[0] == 3 && VLOG.msg_len[1] == 5);
            assert!(VLOG.msg[0][0] == m0[0] && VLOG.msg[0][2] == m0[2]);
            assert!(VLOG.msg[1][0] == m1[0] && VLOG.msg[1][4] == m1[4]);
        }
    }
    kani::cover!(r.is_err());
    kani::cover!(r.is_ok() && use_cache && fl & 0x1_0000 == 0);
    std::mem::forget(state);
}
