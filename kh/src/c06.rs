//! C06 (strict-subset half) — a condition accepted with the mempool strictness flags set is
//! accepted without them, under the same fork flags, with the identical decoded condition.
//! Relational: the real parse_args runs twice on the same symbolic argument list.
use crate::arm::*;
use crate::c01::*;
use crate::h::*;
use chia_consensus::conditions::*;
use chia_consensus::flags::ConsensusFlags;
use clvmr::allocator::{Allocator, NodePtr};

const STRICTNESS: u32 = STRICT | NO_UNKNOWN | 0x200_0000; // + LIMIT_SPENDS

fn relational(a: &Allocator, list: NodePtr, op: u16) {
    relational2(a, list, op, true)
}

fn relational2(a: &Allocator, list: NodePtr, op: u16, strict_can_reject: bool) {
    let base: u32 = kani::any();
    let add: u32 = kani::any();
    let strict = ConsensusFlags::from_bits_retain(base | (add & STRICTNESS));
    let lenient = ConsensusFlags::from_bits_retain(base & !STRICTNESS);
    let rs = parse_args(a, list, op, strict);
    let rl = parse_args(a, list, op, lenient);
    match (&rs, &rl) {
        (Ok(cs), Ok(cl)) => assert!(cond_eq(cs, cl), "same decoded condition with and without the strictness flags"),
        (Ok(_), Err(_)) => assert!(false, "accepted under the strict flags but rejected without them"),
        _ => {}
    }
    kani::cover!(rs.is_ok());
    kani::cover!(!strict_can_reject || (rs.is_err() && rl.is_ok()));
    std::mem::forget(rs);
    std::mem::forget(rl);
}

macro_rules! rel_hash {
    ($name:ident, $op:expr) => {
        harness!($name, 40, {
            let mut a = Allocator::new();
            let (menu, _e) = hash_menu(&mut a);
            let args = build_args(&mut a, &menu, 3);
            relational(&a, args.list, $op);
            std::mem::forget(a);
        });
    };
}
rel_hash!(c06_strict_subset_assert_coin_announcement, 61);
rel_hash!(c06_strict_subset_assert_my_coin_id, 70);
rel_hash!(c06_strict_subset_assert_ephemeral, 76);
harness!(c06_strict_subset_remark, 40, {
    let mut a = Allocator::new();
    let (menu, _e) = hash_menu(&mut a);
    let args = build_args(&mut a, &menu, 3);
    relational2(&a, args.list, 1, false);
    std::mem::forget(a);
});
rel_hash!(c06_strict_subset_two_byte, 0x1234);

harness!(c06_strict_subset_create_puzzle_announcement, 40, {
    let mut a = Allocator::new();
    let (menu, _e) = msg_menu(&mut a);
    let args = build_args(&mut a, &menu, 3);
    relational(&a, args.list, 62);
    std::mem::forget(a);
});

macro_rules! rel_sig {
    ($name:ident, $op:expr) => {
        harness!($name, 50, {
            let mut a = Allocator::new();
            let (menu, _e) = aggsig_menu(&mut a);
            let args = build_args(&mut a, &menu, 3);
            relational(&a, args.list, $op);
            std::mem::forget(a);
        });
    };
}
rel_sig!(c06_strict_subset_agg_sig_me, 50);
rel_sig!(c06_strict_subset_agg_sig_unsafe, 49);

/// integer conditions and CREATE_COIN: first argument a heap-backed atom of L bytes
fn rel_int<const L: usize>(op: u16, with_memo: bool) {
    let mut a = Allocator::new();
    let (n0, _b) = sym_heap_atom::<L>(&mut a);
    let ph = a.new_atom(&[0x22; 32]).unwrap();
    let extra = a.new_atom(&[0x42]).unwrap();
    let hint = a.new_atom(&[0x51; 32]).unwrap();
    let memo = a.new_pair(hint, NodePtr::NIL).unwrap();
    let n: usize = kani::any();
    kani::assume(n <= 3);
    let term = if kani::any() { NodePtr::NIL } else { extra };
    let third = if with_memo { memo } else { extra };
    let l3 = a.new_pair(third, term).unwrap();
    let l2 = a.new_pair(if op == 51 { n0 } else { extra }, if n >= 3 { l3 } else { term }).unwrap();
    let l1 = a.new_pair(if op == 51 { ph } else { n0 }, if n >= 2 { l2 } else { term }).unwrap();
    let list = if n >= 1 { l1 } else { term };
    relational(&a, list, op);
    std::mem::forget(a);
}
harness!(c06_strict_subset_reserve_fee, 40, { rel_int::<9>(52, false) });
harness!(c06_strict_subset_height_relative, 40, { rel_int::<5>(82, false) });
harness!(c06_strict_subset_before_seconds_absolute, 40, { rel_int::<9>(85, false) });
harness!(c06_strict_subset_softfork, 40, { rel_int::<5>(90, false) });
harness!(c06_strict_subset_create_coin, 40, { rel_int::<2>(51, true) });
harness!(c06_strict_subset_create_coin_atom_memo, 40, { rel_int::<9>(51, false) });

// ---- order half, by composition -------------------------------------------------------------------
// Every arm of the real parse_conditions is shown equal to `arm::spec_step` by the arm_* harnesses
// (one inductive step from an arbitrary pre-state under the invariant of DESIGN.md s.8). Here the
// solver decides that spec_step commutes: for every pre-state, every two conditions (any kinds,
// any payloads, the same element or different ones) and every flag word, applying them in either
// order gives the same verdict and, when accepted, the same summary scalars, collection sizes and
// remaining cost. Together: swapping two adjacent conditions of a spend never changes acceptance,
// cost or any aggregate -- hence (adjacent transpositions generate all permutations) no reordering
// of a spend's conditions does. Error *codes* may differ between orders (whichever violation
// comes first is reported); the property speaks of the verdict.
use chia_consensus::validation_error::ErrorCode;

fn any_snap() -> Snap {
    let s = Snap {
        reserve_fee: kani::any(),
        height_absolute: kani::any(),
        seconds_absolute: kani::any(),
        before_height_absolute: kani::any(),
        before_seconds_absolute: kani::any(),
        cost: kani::any(),
        execution_cost: kani::any(),
        condition_cost: kani::any(),
        removal_amount: kani::any(),
        addition_amount: kani::any(),
        n_agg_sig_unsafe: kani::any(),
        n_spends: kani::any(),
        validated_signature: kani::any(),
        coin_amount: kani::any(),
        height_relative: kani::any(),
        seconds_relative: kani::any(),
        before_height_relative: kani::any(),
        before_seconds_relative: kani::any(),
        birth_height: kani::any(),
        birth_seconds: kani::any(),
        flags: kani::any(),
        s_execution_cost: kani::any(),
        s_condition_cost: kani::any(),
        n_create_coin: kani::any(),
        n_agg0: kani::any(),
        n_agg1: kani::any(),
        n_agg2: kani::any(),
        n_agg3: kani::any(),
        n_agg4: kani::any(),
        n_agg5: kani::any(),
        n_agg6: kani::any(),
        n_announce_coin: kani::any(),
        n_announce_puzzle: kani::any(),
        n_assert_coin: kani::any(),
        n_assert_puzzle: kani::any(),
        n_messages: kani::any(),
        n_assert_concurrent_spend: kani::any(),
        n_assert_concurrent_puzzle: kani::any(),
        n_spent_coins: kani::any(),
        n_spent_puzzles: kani::any(),
        n_assert_ephemeral: kani::any(),
        n_assert_not_ephemeral: kani::any(),
        n_pkm: kani::any(),
        max_cost: kani::any(),
    };
    // representation invariant (DESIGN.md s.8)
    kani::assume(s.condition_cost.checked_add(s.max_cost).is_some());
    kani::assume(s.s_condition_cost <= s.condition_cost);
    kani::assume(s.addition_amount < (1u128 << 100));
    if let (Some(a), Some(b)) = (s.seconds_relative, s.before_seconds_relative) {
        kani::assume(a < b);
    }
    if let (Some(a), Some(b)) = (s.height_relative, s.before_height_relative) {
        kani::assume(a < b);
    }
    let any_rel = s.height_relative.is_some()
        || s.seconds_relative.is_some()
        || s.before_height_relative.is_some()
        || s.before_seconds_relative.is_some()
        || s.birth_height.is_some()
        || s.birth_seconds.is_some();
    kani::assume(s.flags & HAS_REL != 0 || !any_rel);
    // collection sizes are far from usize::MAX
    kani::assume(s.n_spends < 1 << 40 && s.n_create_coin < 1 << 40 && s.n_pkm < 1 << 40 && s.n_messages < 1 << 40);
    kani::assume(s.n_agg0 < 1 << 40 && s.n_agg1 < 1 << 40 && s.n_agg2 < 1 << 40 && s.n_agg3 < 1 << 40);
    kani::assume(s.n_agg4 < 1 << 40 && s.n_agg5 < 1 << 40 && s.n_agg6 < 1 << 40 && s.n_agg_sig_unsafe < 1 << 40);
    kani::assume(s.n_announce_coin < 1 << 40 && s.n_announce_puzzle < 1 << 40 && s.n_assert_coin < 1 << 40);
    kani::assume(s.n_assert_puzzle < 1 << 40 && s.n_assert_concurrent_spend < 1 << 40 && s.n_assert_concurrent_puzzle < 1 << 40);
    kani::assume(s.n_assert_ephemeral < 1 << 40 && s.n_assert_not_ephemeral < 1 << 40);
    s
}

/// an arbitrary abstract condition together with a wire opcode that produces it
fn any_ac() -> (AC, u16) {
    let k: u8 = kani::any();
    kani::assume(k < 30);
    let op_any: u16 = kani::any();
    match k {
        0 => (AC::ReserveFee(kani::any()), 52),
        1 => (AC::CreateCoin(kani::any(), kani::any()), 51),
        2 => (AC::SecondsRelative(kani::any()), 80),
        3 => (AC::SecondsAbsolute(kani::any()), 81),
        4 => (AC::HeightRelative(kani::any()), 82),
        5 => (AC::HeightAbsolute(kani::any()), 83),
        6 => (AC::BeforeSecondsRelative(kani::any()), 84),
        7 => (AC::BeforeSecondsAbsolute(kani::any()), 85),
        8 => (AC::BeforeHeightRelative(kani::any()), 86),
        9 => (AC::BeforeHeightAbsolute(kani::any()), 87),
        10 => (AC::MyCoinId(kani::any()), 70),
        11 => (AC::MyParentId(kani::any()), 71),
        12 => (AC::MyPuzzlehash(kani::any()), 72),
        13 => (AC::MyAmount(kani::any()), 73),
        14 => (AC::MyBirthSeconds(kani::any()), 74),
        15 => (AC::MyBirthHeight(kani::any()), 75),
        16 => (AC::Ephemeral(kani::any()), 76),
        17 => (AC::CreateCoinAnn(kani::any()), 60),
        18 => (AC::CreatePuzzleAnn(kani::any()), 62),
        19 => (AC::AssertCoinAnn(kani::any()), 61),
        20 => (AC::AssertPuzzleAnn(kani::any()), 63),
        21 => (AC::ConcurrentSpend(kani::any()), 64),
        22 => (AC::ConcurrentPuzzle(kani::any()), 65),
        23 => {
            let c: u64 = kani::any();
            kani::assume(c <= 0xffff_ffff * 10000);
            (AC::Softfork(c), 90)
        }
        24 => {
            let send: bool = kani::any();
            (AC::Message(kani::any()), if send { 66 } else { 67 })
        }
        25 => (AC::Skip, op_any),
        26 => {
            kani::assume(op_any == 80 || op_any == 82 || op_any == 84 || op_any == 86);
            (AC::SkipRelative, op_any)
        }
        _ => {
            let idx: usize = kani::any();
            kani::assume(idx <= 7);
            let op = match idx {
                0 => 50,
                1 => 43,
                2 => 44,
                3 => 45,
                4 => 46,
                5 => 47,
                6 => 48,
                _ => 49,
            };
            (AC::AggSig(idx, kani::any(), kani::any()), op)
        }
    }
}

/// the "element already present" input of the second condition when the first one (same kind)
/// inserted the same element
fn after_same(c: AC) -> AC {
    match c {
        AC::CreateCoin(a, _) => AC::CreateCoin(a, true),
        AC::Ephemeral(_) => AC::Ephemeral(true),
        AC::CreateCoinAnn(_) => AC::CreateCoinAnn(true),
        AC::CreatePuzzleAnn(_) => AC::CreatePuzzleAnn(true),
        AC::AssertCoinAnn(_) => AC::AssertCoinAnn(true),
        AC::AssertPuzzleAnn(_) => AC::AssertPuzzleAnn(true),
        AC::ConcurrentSpend(_) => AC::ConcurrentSpend(true),
        AC::ConcurrentPuzzle(_) => AC::ConcurrentPuzzle(true),
        other => other,
    }
}

#[kani::proof]
#[kani::unwind(4)]
fn c06_order_spec_step_commutes() {
    let s0 = any_snap();
    let flags: u32 = kani::any();
    let (c1, op1) = any_ac();
    let (c2, op2) = any_ac();
    // `same`: both conditions name the same set element / the same new coin. Then they are equal
    // as abstract conditions, and whichever comes second finds the element present.
    let same: bool = kani::any();
    if same {
        kani::assume(c1 == c2 && op1 == op2);
    }
    let mut a = s0;
    let mut ea = spec_step(&mut a, op1, c1, flags);
    if ea.is_none() {
        ea = spec_step(&mut a, op2, if same { after_same(c2) } else { c2 }, flags);
    }
    let mut b = s0;
    let mut eb = spec_step(&mut b, op2, c2, flags);
    if eb.is_none() {
        eb = spec_step(&mut b, op1, if same { after_same(c1) } else { c1 }, flags);
    }
    assert!(ea.is_none() == eb.is_none(), "swapping two conditions never changes the verdict");
    if ea.is_none() {
        assert!(a == b, "swapping two conditions never changes cost or any aggregate of the summary");
    }
    kani::cover!(ea.is_none() && same);
    kani::cover!(ea.is_none() && !same);
    kani::cover!(ea == Some(ErrorCode::ImpossibleHeightRelativeConstraints) && eb == Some(ErrorCode::ImpossibleHeightRelativeConstraints));
    kani::cover!(ea.is_some() && eb.is_some() && ea != eb);
    kani::cover!(ea == Some(ErrorCode::CostExceeded));
}
