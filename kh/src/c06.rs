//! C06 (strict-subset half) — a condition accepted with the mempool strictness flags set is
//! accepted without them, under the same fork flags, with the identical decoded condition.
//! Relational: the real parse_args runs twice on the same symbolic argument list.
use crate::arm::*;
use crate::c01::*;
use crate::h::*;
use chia_consensus::conditions::*;
use chia_consensus::flags::ConsensusFlags;
use clvmr::allocator::{Allocator, NodePtr};

const STRICTNESS: u32 = STRICT | NO_UNKNOWN | 0x200_0000; // + LIMIT_SPENDS

fn relational(a: &Allocator, list: NodePtr, op: u16) {
    relational2(a, list, op, true)
}

fn relational2(a: &Allocator, list: NodePtr, op: u16, strict_can_reject: bool) {
    let base: u32 = kani::any();
    let add: u32 = kani::any();
    let strict = ConsensusFlags::from_bits_retain(base | (add & STRICTNESS));
    let lenient = ConsensusFlags::from_bits_retain(base & !STRICTNESS);
    let rs = parse_args(a, list, op, strict);
    let rl = parse_args(a, list, op, lenient);
    match (&rs, &rl) {
        (Ok(cs), Ok(cl)) => assert!(cond_eq(cs, cl), "same decoded condition with and without the strictness flags"),
        (Ok(_), Err(_)) => assert!(false, "accepted under the strict flags but rejected without them"),
        _ => {}
    }
    kani::cover!(rs.is_ok());
    kani::cover!(!strict_can_reject || (rs.is_err() && rl.is_ok()));
    std::mem::forget(rs);
    std::mem::forget(rl);
}

macro_rules! rel_hash {
    ($name:ident, $op:expr) => {
        harness!($name, 40, {
            let mut a = Allocator::new();
            let (menu, _e) = hash_menu(&mut a);
            let args = build_args(&mut a, &menu, 3);
            relational(&a, args.list, $op);
            std::mem::forget(a);
        });
    };
}
rel_hash!(c06_strict_subset_assert_coin_announcement, 61);
rel_hash!(c06_strict_subset_assert_my_coin_id, 70);
rel_hash!(c06_strict_subset_assert_ephemeral, 76);
harness!(c06_strict_subset_remark, 40, {
    let mut a = Allocator::new();
    let (menu, _e) = hash_menu(&mut a);
    let args = build_args(&mut a, &menu, 3);
    relational2(&a, args.list, 1, false);
    std::mem::forget(a);
});
rel_hash!(c06_strict_subset_two_byte, 0x1234);

harness!(c06_strict_subset_create_puzzle_announcement, 40, {
    let mut a = Allocator::new();
    let (menu, _e) = msg_menu(&mut a);
    let args = build_args(&mut a, &menu, 3);
    relational(&a, args.list, 62);
    std::mem::forget(a);
});

macro_rules! rel_sig {
    ($name:ident, $op:expr) => {
        harness!($name, 50, {
            let mut a = Allocator::new();
            let (menu, _e) = aggsig_menu(&mut a);
            let args = build_args(&mut a, &menu, 3);
            relational(&a, args.list, $op);
            std::mem::forget(a);
        });
    };
}
rel_sig!(c06_strict_subset_agg_sig_me, 50);
rel_sig!(c06_strict_subset_agg_sig_unsafe, 49);

/// integer conditions and CREATE_COIN: first argument a heap-backed atom of L bytes
fn rel_int<const L: usize>(op: u16, with_memo: bool) {
    let mut a = Allocator::new();
    let (n0, _b) = sym_heap_atom::<L>(&mut a);
    let ph = a.new_atom(&[0x22; 32]).unwrap();
    let extra = a.new_atom(&[0x42]).unwrap();
    let hint = a.new_atom(&[0x51; 32]).unwrap();
    let memo = a.new_pair(hint, NodePtr::NIL).unwrap();
    let n: usize = kani::any();
    kani::assume(n <= 3);
    let term = if kani::any() { NodePtr::NIL } else { extra };
    let third = if with_memo { memo } else { extra };
    let l3 = a.new_pair(third, term).unwrap();
    let l2 = a.new_pair(if op == 51 { n0 } else { extra }, if n >= 3 { l3 } else { term }).unwrap();
    let l1 = a.new_pair(if op == 51 { ph } else { n0 }, if n >= 2 { l2 } else { term }).unwrap();
    let list = if n >= 1 { l1 } else { term };
    relational(&a, list, op);
    std::mem::forget(a);
}
harness!(c06_strict_subset_reserve_fee, 40, { rel_int::<9>(52, false) });
harness!(c06_strict_subset_height_relative, 40, { rel_int::<5>(82, false) });
harness!(c06_strict_subset_before_seconds_absolute, 40, { rel_int::<9>(85, false) });
harness!(c06_strict_subset_softfork, 40, { rel_int::<5>(90, false) });
harness!(c06_strict_subset_create_coin, 40, { rel_int::<2>(51, true) });
harness!(c06_strict_subset_create_coin_atom_memo, 40, { rel_int::<9>(51, false) });
