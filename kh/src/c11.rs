//! C11 — all integer encoders agree on the canonical CLVM integer form.
//!
//! Oracle: `spec::canon_u64` (9-byte buffer, strip rule), self-checked below and
//! cross-stated in /verif/smt/canon.smt2.
use crate::h::*;
use crate::spec::*;
use crate::stubs;
use chia_consensus::make_aggsig_final_message::u64_to_bytes;
use chia_consensus::sanitize_int::{SanitizedUint, sanitize_uint};
use chia_consensus::solution_generator::calculate_generator_length;
use chia_consensus::validation_error::{ErrorCode, ValidationErr};
use chia_protocol::{Bytes32, Coin, CoinSpend, Program};
use clvm_traits::{decode_number, encode_number};
use clvmr::allocator::{Allocator, NodePtr, SExp};

// --- the oracle itself -------------------------------------------------------

#[kani::proof]
#[kani::unwind(11)]
fn c11_spec_selfcheck() {
    let v: u64 = kani::any();
    let (buf, len) = canon_u64(v);
    assert!(len == canon_len_u64(v));
    // decodes back
    let mut acc: u64 = 0;
    let mut i = 0;
    while i < len {
        acc = (acc << 8) | buf[i] as u64;
        i += 1;
    }
    assert!(acc == v);
    // positive
    assert!(len == 0 || buf[0] & 0x80 == 0);
    // minimal
    assert!(len < 2 || buf[0] != 0 || buf[1] & 0x80 != 0);
    assert!(len != 1 || buf[0] != 0);
    kani::cover!(len == 0);
    kani::cover!(len == 9);
}

// --- encoders ------------------------------------------------------------------

#[kani::proof]
#[kani::unwind(11)]
fn c11_u64_to_bytes() {
    let v: u64 = kani::any();
    let got = u64_to_bytes(v);
    let (buf, len) = canon_u64(v);
    assert!(got.len() == len);
    let mut i = 0;
    while i < len {
        assert!(got[i] == buf[i]);
        i += 1;
    }
    kani::cover!(len == 0);
    kani::cover!(len == 5);
    kani::cover!(len == 9);
    std::mem::forget(got);
}

harness_sha!(c11_coin_id_preimage, 36, {
    let parent: [u8; 32] = kani::any();
    let ph: [u8; 32] = kani::any();
    let v: u64 = kani::any();
    let c = Coin::new(Bytes32::new(parent), Bytes32::new(ph), v);
    let id = c.coin_id();
    let (buf, len) = canon_u64(v);
    assert!(stubs::rec_len() == 64 + len);
    let mut i = 0;
    while i < 32 {
        assert!(stubs::rec(i) == parent[i]);
        assert!(stubs::rec(32 + i) == ph[i]);
        i += 1;
    }
    let mut j = 0;
    while j < len {
        assert!(stubs::rec(64 + j) == buf[j]);
        j += 1;
    }
    // and the id is the digest of exactly that stream
    let n = 64 + len;
    let d = unsafe { stubs::model_digest(&crate::stubs::G.rec, n) };
    assert!(id.as_ref() == &d[..]);
    kani::cover!(len == 0);
    kani::cover!(len == 9);
});

harness!(c11_new_u64, 11, {
    let mut a = Allocator::new();
    let v: u64 = kani::any();
    let n = a.new_u64(v).unwrap();
    let (buf, len) = canon_u64(v);
    assert!(matches!(a.sexp(n), SExp::Atom));
    assert!(a.atom_len(n) == len);
    let at = a.atom(n);
    let got = at.as_ref();
    assert!(got.len() == len);
    let mut i = 0;
    while i < len {
        assert!(got[i] == buf[i]);
        i += 1;
    }
    kani::cover!(len == 0);
    kani::cover!(len == 4);
    kani::cover!(len == 9);
    std::mem::forget(a);
});

/// serialized length of an atom in CLVM serialization (atoms shorter than 64 bytes)
fn serialized_len(buf: &[u8; 9], len: usize) -> usize {
    if len == 0 {
        1
    } else if len == 1 && buf[0] < 0x80 {
        1
    } else {
        1 + len
    }
}

#[kani::proof]
#[kani::unwind(11)]
fn c11_generator_length_amount() {
    // calculate_generator_length([spend]) = 5 + 39 + |puzzle| + clvm_bytes_len(amount) + |solution|
    let v: u64 = kani::any();
    let cs = CoinSpend::new(
        Coin::new(Bytes32::new([0; 32]), Bytes32::new([0; 32]), v),
        Program::default(),
        Program::default(),
    );
    let pl = cs.puzzle_reveal.as_ref().len();
    let sl = cs.solution.as_ref().len();
    let spends = [cs];
    let got = calculate_generator_length(&spends);
    let (buf, len) = canon_u64(v);
    assert!(got == 5 + 39 + pl + sl + serialized_len(&buf, len));
    kani::cover!(len == 2 && buf[0] == 0);
    kani::cover!(len == 1);
    kani::cover!(len == 9);
    std::mem::forget(spends);
}

// --- the condition-integer decoder -----------------------------------------------

/// Declarative classification of an atom as a condition integer of width MAX bytes.
#[derive(PartialEq, Eq, Clone, Copy)]
pub enum UintClass {
    Ok(u64),
    Pos,
    Neg,
    Invalid,
}

/// An atom x (|x| ≤ 10) denotes the integer be(x) in two's complement. It is
/// acceptable only in its minimal form; negative → Neg; ≥ 2^(8·MAX) → Pos.
pub fn classify_uint(x: &[u8], max_size: usize) -> UintClass {
    let l = x.len();
    if l == 0 {
        return UintClass::Ok(0);
    }
    if x[0] & 0x80 != 0 {
        return UintClass::Neg;
    }
    // positive: minimal form has no 0x00 lead unless needed for the sign
    if x[0] == 0 && (l == 1 || x[1] & 0x80 == 0) {
        return UintClass::Invalid;
    }
    let v = be_value(x);
    if max_size < 16 && v >> (8 * max_size as u32) != 0 {
        UintClass::Pos
    } else {
        UintClass::Ok(v as u64)
    }
}

fn sanitize_class<const L: usize, const MAX: usize>() {
    let mut a = Allocator::new();
    let (n, buf) = sym_atom::<L>(&mut a);
    let r = sanitize_uint(&a, n, MAX, ValidationErr::Err(ErrorCode::InvalidCoinAmount));
    let want = classify_uint(&buf, MAX);
    match r {
        Ok(SanitizedUint::Ok(v)) => {
            assert!(want == UintClass::Ok(v));
            // accepted ⇒ the atom is *the* canonical encoding of v
            let (cb, cl) = canon_u64(v);
            assert!(cl == L);
            let mut i = 0;
            while i < L {
                assert!(cb[i] == buf[i]);
                i += 1;
            }
        }
        Ok(SanitizedUint::PositiveOverflow) => {
            assert!(want == UintClass::Pos);
        }
        Ok(SanitizedUint::NegativeOverflow) => {
            assert!(want == UintClass::Neg);
        }
        Err(ValidationErr::Err(ErrorCode::InvalidCoinAmount)) => {
            assert!(want == UintClass::Invalid);
        }
        Err(_) => {
            assert!(false);
        }
    }
    // vacuity witnesses: every class possible at this length is reached
    kani::cover!(L == 0 || want == UintClass::Neg);
    kani::cover!(L == 0 || want == UintClass::Invalid);
    kani::cover!(L > MAX + 1 || matches!(want, UintClass::Ok(_)));
    kani::cover!(L <= MAX || want == UintClass::Pos);
    std::mem::forget(a);
}

macro_rules! sanitize_inst {
    ($name:ident, $l:expr, $max:expr) => {
        harness!($name, 13, { sanitize_class::<$l, $max>() });
    };
}
sanitize_inst!(c11_sanitize_l0_m8, 0, 8);
sanitize_inst!(c11_sanitize_l1_m8, 1, 8);
sanitize_inst!(c11_sanitize_l2_m8, 2, 8);
sanitize_inst!(c11_sanitize_l3_m8, 3, 8);
sanitize_inst!(c11_sanitize_l4_m8, 4, 8);
sanitize_inst!(c11_sanitize_l5_m8, 5, 8);
sanitize_inst!(c11_sanitize_l6_m8, 6, 8);
sanitize_inst!(c11_sanitize_l7_m8, 7, 8);
sanitize_inst!(c11_sanitize_l8_m8, 8, 8);
sanitize_inst!(c11_sanitize_l9_m8, 9, 8);
sanitize_inst!(c11_sanitize_l10_m8, 10, 8);
sanitize_inst!(c11_sanitize_l0_m4, 0, 4);
sanitize_inst!(c11_sanitize_l1_m4, 1, 4);
sanitize_inst!(c11_sanitize_l2_m4, 2, 4);
sanitize_inst!(c11_sanitize_l3_m4, 3, 4);
sanitize_inst!(c11_sanitize_l4_m4, 4, 4);
sanitize_inst!(c11_sanitize_l5_m4, 5, 4);
sanitize_inst!(c11_sanitize_l6_m4, 6, 4);
sanitize_inst!(c11_sanitize_l9_m4, 9, 4);

harness!(c11_sanitize_pair, 5, {
    let mut a = Allocator::new();
    let x = a.new_atom(&[1]).unwrap();
    let p = a.new_pair(x, x).unwrap();
    let m: usize = kani::any();
    kani::assume(m == 4 || m == 8);
    let r = sanitize_uint(&a, p, m, ValidationErr::Err(ErrorCode::InvalidCoinAmount));
    assert!(matches!(r, Err(ValidationErr::Err(ErrorCode::InvalidCoinAmount))));
    std::mem::forget(a);
});

// --- clvm-traits integer codec ------------------------------------------------------

/// minimal two's complement of the LEN-byte big-endian value `be` (sign given by
/// `neg`; for unsigned types neg = false and the value is non-negative).
fn min_twos<const LEN: usize>(be: &[u8; LEN], neg: bool) -> ([u8; 17], usize) {
    // sign-extend to LEN+1 bytes, then strip redundant sign bytes
    let pad = if neg { 0xffu8 } else { 0u8 };
    let mut full = [0u8; 17];
    full[0] = pad;
    let mut i = 0;
    while i < LEN {
        full[1 + i] = be[i];
        i += 1;
    }
    let total = LEN + 1;
    let mut start = 0;
    while start < total {
        if full[start] != pad {
            break;
        }
        // can strip this pad byte only if the next byte carries the same sign bit
        if start + 1 < total {
            if ((full[start + 1] & 0x80) != 0) != neg {
                break;
            }
        } else if neg {
            // all 0xff: -1 is encoded as a single 0xff
            break;
        }
        start += 1;
    }
    let len = total - start;
    let mut out = [0u8; 17];
    let mut j = 0;
    while j < len {
        out[j] = full[start + j];
        j += 1;
    }
    (out, len)
}

fn codec_roundtrip<const LEN: usize>(signed: bool) {
    let be: [u8; LEN] = kani::any();
    let neg = signed && (be[0] & 0x80) != 0;
    let enc = encode_number(&be, neg);
    let (want, wl) = min_twos::<LEN>(&be, neg);
    assert!(enc.len() == wl);
    let mut i = 0;
    while i < wl {
        assert!(enc[i] == want[i]);
        i += 1;
    }
    let dec = decode_number::<LEN>(&enc, signed);
    assert!(dec == Some(be));
    kani::cover!(wl == 0);
    kani::cover!(wl == LEN + 1 || signed);
    std::mem::forget(enc);
}

macro_rules! codec_inst {
    ($name:ident, $len:expr, $signed:expr, $unwind:expr) => {
        #[kani::proof]
        #[kani::unwind($unwind)]
        fn $name() {
            codec_roundtrip::<$len>($signed)
        }
    };
}
codec_inst!(c11_codec_u8, 1, false, 4);
codec_inst!(c11_codec_i8, 1, true, 4);
codec_inst!(c11_codec_u16, 2, false, 5);
codec_inst!(c11_codec_i16, 2, true, 5);
codec_inst!(c11_codec_u32, 4, false, 7);
codec_inst!(c11_codec_i32, 4, true, 7);
codec_inst!(c11_codec_u64, 8, false, 11);
codec_inst!(c11_codec_i64, 8, true, 11);
codec_inst!(c11t_codec_u128, 16, false, 19);
codec_inst!(c11t_codec_i128, 16, true, 19);

/// decode_number on an arbitrary atom of N bytes: accepts exactly when the denoted
/// integer fits the type; never truncates.
fn decode_total<const LEN: usize, const N: usize>(signed: bool) {
    let x: [u8; N] = kani::any();
    let r = decode_number::<LEN>(&x, signed);
    // denoted integer: two's complement of x
    let x_neg = N > 0 && (x[0] & 0x80) != 0;
    // sign-extend x to 20 bytes and compare with sign-extended result
    let mut wide = [if x_neg { 0xffu8 } else { 0 }; 20];
    let mut i = 0;
    while i < N {
        wide[20 - N + i] = x[i];
        i += 1;
    }
    match r {
        Some(v) => {
            let v_neg = signed && (v[0] & 0x80) != 0;
            let mut vw = [if v_neg { 0xffu8 } else { 0 }; 20];
            let mut j = 0;
            while j < LEN {
                vw[20 - LEN + j] = v[j];
                j += 1;
            }
            assert!(vw == wide);
            assert!(signed || !x_neg);
        }
        None => {
            // out of range: the sign-extended value does not fit LEN bytes
            let pad = if x_neg { 0xffu8 } else { 0 };
            let mut fits = true;
            let mut k = 0;
            while k < 20 - LEN {
                if wide[k] != pad {
                    fits = false;
                }
                k += 1;
            }
            if signed {
                // top bit of the LEN-byte window must equal the sign
                if ((wide[20 - LEN] & 0x80) != 0) != x_neg {
                    fits = false;
                }
            } else if x_neg {
                fits = false;
            }
            assert!(!fits);
        }
    }
    kani::cover!(r.is_some());
    kani::cover!(N <= LEN || r.is_none());
}

macro_rules! decode_inst {
    ($name:ident, $len:expr, $n:expr, $signed:expr) => {
        #[kani::proof]
        #[kani::unwind(22)]
        fn $name() {
            decode_total::<$len, $n>($signed)
        }
    };
}
decode_inst!(c11_decode_u8_n1, 1, 1, false);
decode_inst!(c11_decode_u8_n2, 1, 2, false);
decode_inst!(c11_decode_u8_n3, 1, 3, false);
decode_inst!(c11_decode_i8_n1, 1, 1, true);
decode_inst!(c11_decode_i8_n2, 1, 2, true);
decode_inst!(c11_decode_i8_n3, 1, 3, true);
decode_inst!(c11_decode_u16_n3, 2, 3, false);
decode_inst!(c11_decode_i16_n3, 2, 3, true);
decode_inst!(c11_decode_u32_n5, 4, 5, false);
decode_inst!(c11_decode_i32_n5, 4, 5, true);
decode_inst!(c11_decode_u32_n6, 4, 6, false);
decode_inst!(c11_decode_u64_n8, 8, 8, false);
decode_inst!(c11_decode_u64_n9, 8, 9, false);
decode_inst!(c11_decode_i64_n9, 8, 9, true);
decode_inst!(c11_decode_u64_n10, 8, 10, false);
decode_inst!(c11_decode_i64_n10, 8, 10, true);
decode_inst!(c11t_decode_u128_n17, 16, 17, false);
decode_inst!(c11t_decode_i128_n17, 16, 17, true);
decode_inst!(c11t_decode_u128_n18, 16, 18, false);



// NOT REGISTERED (c11x_*): num-bigint arithmetic under CBMC gave no verdict within 30 min.
// ---- the DEFAULT `ClvmEncoder::encode_bigint` (used by every encoder that does not override it,
// e.g. clvm_utils::TreeHasher): arbitrary-precision integers take the same canonical form as the
// fixed-width ones (`encode_number`, decided above), zero being the empty atom
pub struct RecEnc {
    pub bytes: [u8; 12],
    pub len: usize,
}
#[derive(Clone)]
pub struct RecNode;
impl clvm_traits::ToClvm<RecEnc> for RecNode {
    fn to_clvm(&self, _e: &mut RecEnc) -> Result<RecNode, clvm_traits::ToClvmError> {
        Ok(RecNode)
    }
}
impl clvm_traits::ClvmEncoder for RecEnc {
    type Node = RecNode;
    fn encode_atom(&mut self, atom: clvmr::Atom<'_>) -> Result<RecNode, clvm_traits::ToClvmError> {
        let b = atom.as_ref();
        self.len = b.len();
        let mut i = 0;
        while i < b.len() && i < 12 {
            self.bytes[i] = b[i];
            i += 1;
        }
        Ok(RecNode)
    }
    fn encode_pair(&mut self, _f: RecNode, _r: RecNode) -> Result<RecNode, clvm_traits::ToClvmError> {
        Ok(RecNode)
    }
}

fn bigint_default_is(v: i128) {
    use clvm_traits::ClvmEncoder;
    let mut e = RecEnc { bytes: [0; 12], len: 99 };
    let r = e.encode_bigint(num_bigint::BigInt::from(v));
    assert!(r.is_ok());
    let want = encode_number(&v.to_be_bytes(), v < 0);
    assert!(e.len == want.len(), "default encode_bigint: canonical length (zero is the empty atom)");
    let mut i = 0;
    while i < want.len() && i < 12 {
        assert!(e.bytes[i] == want[i], "default encode_bigint: canonical bytes");
        i += 1;
    }
    std::mem::forget(want);
}

#[kani::proof]
#[kani::unwind(22)]
fn c11x_encode_bigint_default_boundaries() {
    // zero, the sign-byte boundaries of 1 and 2 bytes, and the u64 / i64 extremes
    let k: u8 = kani::any();
    kani::assume(k < 12);
    let v: i128 = match k {
        0 => 0,
        1 => 1,
        2 => 127,
        3 => 128,
        4 => 255,
        5 => 256,
        6 => -1,
        7 => -128,
        8 => -129,
        9 => 0x7fff_ffff_ffff_ffff,
        10 => 0xffff_ffff_ffff_ffff,
        _ => -0x8000_0000_0000_0000,
    };
    bigint_default_is(v);
    kani::cover!(k == 0);
    kani::cover!(k == 11);
}

#[kani::proof]
#[kani::unwind(22)]
fn c11x_encode_bigint_default_all_i16() {
    let v: i16 = kani::any();
    bigint_default_is(v as i128);
    kani::cover!(v == 0);
    kani::cover!(v == -129);
}
