//! C12 — Merkle set: proofs are audited, complete and (given collision resistance) sound.
//! Decided here: the structural half -- which byte strings parse as proofs, the leaf
//! position audit, trailing bytes / unknown tags / truncation, what a parsed tree says
//! about an item -- and honest-proof completeness + root canonicity on 2-element sets.
//! Hash function: S3 model (the statements hold for any hash function).
use crate::h::*;
use crate::stubs;
use chia_consensus::merkle_set::compute_merkle_set_root;
use chia_consensus::merkle_tree::{validate_merkle_proof, MerkleSet};

fn bit(x: &[u8; 32], i: usize) -> bool {
    (x[i / 8] >> (7 - i % 8)) & 1 == 1
}

fn put(buf: &mut [u8], at: &mut usize, b: &[u8]) {
    let mut i = 0;
    while i < b.len() {
        buf[*at] = b[i];
        *at += 1;
        i += 1;
    }
}

/// hash with a symbolic first and last byte
fn sym_hash(fill: u8) -> [u8; 32] {
    let mut h = [fill; 32];
    h[0] = kani::any();
    h[31] = kani::any();
    h
}

// single-node proofs with a concrete tag byte (a symbolic tag makes the parser's stack of
// bit vectors path-dependent: 11 GB); the hash and the queried item are symbolic
fn single_node(tag: u8, with_hash: bool) {
    let h = sym_hash(0x5a);
    let item = sym_hash(0x5a);
    let mut p = [0u8; 33];
    p[0] = tag;
    let mut at = 1;
    put(&mut p, &mut at, &h);
    let n = if with_hash { 33 } else { 1 };
    let r = MerkleSet::from_proof(&p[..n]);
    let want_ok = (tag == 0 && !with_hash) || ((tag == 1 || tag == 3) && with_hash);
    assert!(r.is_ok() == want_ok, "which single-node byte strings are proofs");
    if let Ok(t) = &r {
        let g = t.generate_proof(&item);
        match tag {
            0 => {
                assert!(t.get_root() == [0u8; 32]);
                assert!(matches!(g, Ok((false, _))), "nothing is in the empty set");
            }
            1 => assert!(matches!(g, Ok((inc, _)) if inc == (item == h)), "a single leaf: included iff equal"),
            _ => {
                assert!(g.is_err(), "a truncated tree proves nothing about any item");
                assert!(t.get_root() == h);
            }
        }
        std::mem::forget(g);
    }
    kani::cover!(true);
    std::mem::forget(r);
}
harness_sha!(c12_proof_empty, 40, { single_node(0, false) });
harness_sha!(c12_proof_empty_trailing, 40, { single_node(0, true) });
harness_sha!(c12_proof_leaf, 40, { single_node(1, true) });
harness_sha!(c12_proof_leaf_short, 40, { single_node(1, false) });
harness_sha!(c12_proof_truncated, 40, { single_node(3, true) });
harness_sha!(c12_proof_middle_alone, 40, { single_node(2, false) });
harness_sha!(c12_proof_unknown_tag, 40, { single_node(4, true) });

/// hash whose first byte (the path bits the audit looks at) is fixed per instance; the
/// rest of the identity (bytes 1 and 31) is symbolic. With a symbolic first byte the
/// audit's early exit makes the parser's stacks path-dependent (> 12 GB).
fn hash_b0(first: u8, fill: u8) -> [u8; 32] {
    let mut h = [fill; 32];
    h[0] = first;
    h[1] = kani::any();
    h[31] = kani::any();
    h
}

// MIDDLE with two leaves: the position audit, for each combination of leading bits
fn two_leaves(l0: u8, r0: u8) {
    let l = hash_b0(l0, 0x11);
    let r = hash_b0(r0, 0x22);
    let item = hash_b0(r0, 0x22);
    let mut p = [0u8; 67];
    let mut at = 0;
    put(&mut p, &mut at, &[2, 1]);
    put(&mut p, &mut at, &l);
    put(&mut p, &mut at, &[1]);
    put(&mut p, &mut at, &r);
    let t = MerkleSet::from_proof(&p);
    assert!(t.is_ok() == (!bit(&l, 0) && bit(&r, 0)), "each revealed leaf lies on the path spelled by its own bits");
    if let Ok(t) = &t {
        let g = t.generate_proof(&item);
        assert!(matches!(g, Ok((inc, _)) if inc == (item == l || item == r)), "states membership correctly");
        std::mem::forget(g);
    }
    kani::cover!(true);
    std::mem::forget(t);
}
harness_sha!(c12_two_leaves_ok, 70, { two_leaves(0x10, 0x90) });
harness_sha!(c12_two_leaves_swapped, 70, { two_leaves(0x90, 0x10) });
harness_sha!(c12_two_leaves_both_left, 70, { two_leaves(0x10, 0x20) });
harness_sha!(c12t_two_leaves_both_right, 70, { two_leaves(0x90, 0xa0) });

// two MIDDLE levels: [2, 0, [2, leaf a, leaf b]] -- both leaves sit at depth 2 under the root's
// right branch, so EVERY bit of the route (right, then left / right) is audited, not just the last
fn two_level(a0: u8, b0: u8) {
    let x = hash_b0(a0, 0x11);
    let y = hash_b0(b0, 0x22);
    let mut p = [0u8; 69];
    let mut at = 0;
    put(&mut p, &mut at, &[2, 0, 2, 1]);
    put(&mut p, &mut at, &x);
    put(&mut p, &mut at, &[1]);
    put(&mut p, &mut at, &y);
    let t = MerkleSet::from_proof(&p);
    let want = bit(&x, 0) && !bit(&x, 1) && bit(&y, 0) && bit(&y, 1);
    assert!(t.is_ok() == want, "a revealed leaf is accepted only where ALL bits of its route match its own leading bits");
    kani::cover!(true);
    std::mem::forget(t);
}
harness_sha!(c12_two_level_audit_ok, 80, { two_level(0x90, 0xd0) });
harness_sha!(c12_two_level_audit_first_bit_wrong, 80, { two_level(0x10, 0xd0) });
harness_sha!(c12t_two_level_audit_second_bit_wrong, 80, { two_level(0xd0, 0xd0) });
harness_sha!(c12t_two_level_audit_right_leaf_first_bit_wrong, 80, { two_level(0x90, 0x50) });

// root check and trailing bytes through validate_merkle_proof
harness_sha!(c12_validate_root_and_trailing, 70, {
    let l = hash_b0(0x10, 0x11);
    let r = hash_b0(0x90, 0x22);
    let item = hash_b0(0x90, 0x22);
    let mut p = [0u8; 68];
    let mut at = 0;
    put(&mut p, &mut at, &[2, 1]);
    put(&mut p, &mut at, &l);
    put(&mut p, &mut at, &[1]);
    put(&mut p, &mut at, &r);
    let t = MerkleSet::from_proof(&p[..67]).unwrap();
    let root = t.get_root();
    let claimed: [u8; 32] = kani::any();
    let v = validate_merkle_proof(&p[..67], &item, &claimed);
    if claimed == root {
        assert!(matches!(v, Ok(inc) if inc == (item == r)), "verifies against its root and states membership correctly");
    } else {
        assert!(v.is_err(), "any other root is refused");
    }
    kani::cover!(claimed == root);
    kani::cover!(claimed != root);
    std::mem::forget(v);
    std::mem::forget(t);
});
harness_sha!(c12_trailing_byte, 70, {
    let l = hash_b0(0x10, 0x11);
    let r = hash_b0(0x90, 0x22);
    let mut p = [0u8; 68];
    let mut at = 0;
    put(&mut p, &mut at, &[2, 1]);
    put(&mut p, &mut at, &l);
    put(&mut p, &mut at, &[1]);
    put(&mut p, &mut at, &r);
    p[67] = kani::any();
    assert!(MerkleSet::from_proof(&p).is_err(), "trailing bytes are rejected");
});

// MIDDLE with an EMPTY side / a TRUNCATED side
fn one_sided(right: bool, x0: u8) {
    let x = hash_b0(x0, 0x33);
    let mut p = [0u8; 35];
    let mut at = 0;
    if right {
        put(&mut p, &mut at, &[2, 0, 1]);
        put(&mut p, &mut at, &x);
    } else {
        put(&mut p, &mut at, &[2, 1]);
        put(&mut p, &mut at, &x);
        put(&mut p, &mut at, &[0]);
    }
    let a = MerkleSet::from_proof(&p);
    assert!(a.is_ok() == (bit(&x, 0) == right), "a leaf's first bit decides its branch");
    kani::cover!(true);
    std::mem::forget(a);
}
harness_sha!(c12_one_sided_right_ok, 70, { one_sided(true, 0x80) });
harness_sha!(c12_one_sided_right_bad, 70, { one_sided(true, 0x7f) });
harness_sha!(c12_one_sided_left_ok, 70, { one_sided(false, 0x7f) });
harness_sha!(c12t_one_sided_left_bad, 70, { one_sided(false, 0x80) });

fn truncated_side(item0: u8) {
    let x = hash_b0(0x80, 0x33);
    let tr = hash_b0(0x44, 0x44);
    let item = hash_b0(item0, 0x33);
    // [2, 3 tr, 1 x]: the truncated side proves nothing, the revealed side is exact
    let mut s = [0u8; 67];
    let mut at = 0;
    put(&mut s, &mut at, &[2, 3]);
    put(&mut s, &mut at, &tr);
    put(&mut s, &mut at, &[1]);
    put(&mut s, &mut at, &x);
    let c = MerkleSet::from_proof(&s);
    assert!(c.is_ok());
    if let Ok(t) = &c {
        let g = t.generate_proof(&item);
        if bit(&item, 0) {
            assert!(matches!(g, Ok((inc, _)) if inc == (item == x)));
        } else {
            assert!(g.is_err(), "an item under the truncated side can be neither included nor excluded");
        }
        std::mem::forget(g);
    }
    kani::cover!(true);
    std::mem::forget(c);
}
harness_sha!(c12_truncated_side_item_right, 70, { truncated_side(0x80) });
harness_sha!(c12_truncated_side_item_left, 70, { truncated_side(0x00) });

// ---- roots are canonical; both root computations agree; honest proofs verify ---------------------
// Reference definition (collapsed binary trie): a subtree holding one leaf IS that leaf (type 1);
// a subtree whose leaves all agree on the current bit is the subtree of the next bit, except that
// a "plain middle" (type 2 whose children are not two leaves, directly or through such one-sided
// levels) gets an explicit EMPTY sibling (type 0, blank hash); two non-empty sides hash as
// H(0^30 || type_l || type_r || hash_l || hash_r). The set root of a single leaf is H(1 || leaf).
// The expected roots below are written out from this definition for each leaf configuration; the
// leading byte of every leaf (the bits the sort looks at) is fixed per instance, bytes 1 and 31
// are symbolic.
use chia_sha2::Sha256;

fn h_node(lt: u8, rt: u8, l: &[u8; 32], r: &[u8; 32]) -> [u8; 32] {
    let mut h = Sha256::new();
    h.update([0u8; 30]);
    h.update([lt, rt]);
    h.update(l);
    h.update(r);
    h.finalize()
}
fn h_leaf(l: &[u8; 32]) -> [u8; 32] {
    let mut h = Sha256::new();
    h.update([1u8]);
    h.update(l);
    h.finalize()
}

/// both root computations on `leafs` (in the given order) equal `want`
fn roots<const N: usize>(leafs: [[u8; 32]; N], want: [u8; 32]) {
    let mut s1 = leafs;
    let r1 = compute_merkle_set_root(&mut s1);
    assert!(r1 == want, "compute_merkle_set_root = reference definition of the collapsed trie hash");
    let mut s2 = leafs;
    let t = MerkleSet::from_leafs(&mut s2);
    assert!(t.get_root() == want, "MerkleSet::from_leafs root = reference definition (both computations agree)");
    std::mem::forget(t);
}

/// every leaf has an honest inclusion proof and an absent item an honest exclusion proof, and each
/// verifies against the root (`want`, by the reference definition).
/// NOT REGISTERED (harness names c12x_*): from_leafs + generate_proof + from_proof + get_root +
/// generate_proof in one query exceeded 12 GB / 15 min even for a single leaf.
fn honest_proof<const N: usize, const PLEN: usize>(leafs: [[u8; 32]; N], want: [u8; 32], probe: [u8; 32]) {
    let mut s2 = leafs;
    let t = MerkleSet::from_leafs(&mut s2);
    let mut member = false;
    let mut i = 0;
    while i < N {
        member |= probe == leafs[i];
        i += 1;
    }
    let g = t.generate_proof(&probe);
    match g {
        Ok((inc, proof)) => {
            assert!(inc == member, "the generated proof states membership correctly");
            // the proof has the expected size for this configuration; validated from a fixed-size
            // copy (a heap Vec of pushed bytes is far more expensive for CBMC than an array)
            assert!(proof.len() == PLEN, "proof size for this tree shape");
            let mut pb = [0u8; PLEN];
            let mut k = 0;
            while k < PLEN {
                pb[k] = proof[k];
                k += 1;
            }
            let v = validate_merkle_proof(&pb, &probe, &want);
            assert!(matches!(v, Ok(b) if b == member), "the generated proof verifies against the root");
            kani::cover!(inc, "inclusion proof");
            kani::cover!(!inc, "exclusion proof");
            std::mem::forget(v);
            std::mem::forget(proof);
        }
        Err(_) => assert!(false, "a tree built from leaves always yields a proof"),
    }
    std::mem::forget(t);
}

harness_sha!(c12_root_empty_and_single, 70, {
    let mut e: [[u8; 32]; 0] = [];
    assert!(compute_merkle_set_root(&mut e) == [0u8; 32]);
    let mut e2: [[u8; 32]; 0] = [];
    let t = MerkleSet::from_leafs(&mut e2);
    assert!(t.get_root() == [0u8; 32]);
    let x = sym_hash(0x5a);
    assert!(matches!(t.generate_proof(&x), Ok((false, _))));
    let l = sym_hash(0x5a);
    roots([l], h_leaf(&l));
    std::mem::forget(t);
});
harness_sha!(c12x_proof_single_leaf_set, 70, {
    let l = sym_hash(0x5a);
    let x = sym_hash(0x5a);
    honest_proof::<1, 33>([l], h_leaf(&l), x);
});

/// two leaves; `swap`: input order
fn two_leaf_root(a0: u8, b0: u8, swap: bool) {
    let a = hash_b0(a0, 0x61);
    let b = hash_b0(b0, 0x61);
    let (lo, hi) = if a0 < b0 { (a, b) } else { (b, a) };
    let want = h_node(1, 1, &lo, &hi);
    roots(if swap { [b, a] } else { [a, b] }, want);
    kani::cover!(true);
}
fn two_leaf_proof<const PLEN: usize>(a0: u8, b0: u8, p0: u8) {
    let a = hash_b0(a0, 0x61);
    let b = hash_b0(b0, 0x61);
    let probe = hash_b0(p0, 0x61);
    let (lo, hi) = if a0 < b0 { (a, b) } else { (b, a) };
    let want = h_node(1, 1, &lo, &hi);
    honest_proof::<2, PLEN>([a, b], want, probe);
}
// split at depth 0 / both on the left (split at depth 1) / both on the right (split at depth 2)
harness_sha!(c12_root_two_split_d0, 80, { two_leaf_root(0x20, 0xa0, false) });
harness_sha!(c12_root_two_split_d0_swapped, 80, { two_leaf_root(0x20, 0xa0, true) });
harness_sha!(c12_root_two_split_d1_left, 80, { two_leaf_root(0x60, 0x20, false) });
harness_sha!(c12t_root_two_split_d2_right, 80, { two_leaf_root(0xa0, 0x80, false) });
harness_sha!(c12x_proof_two_split_d0, 80, { two_leaf_proof::<67>(0x20, 0xa0, 0xa0) });
harness_sha!(c12x_proof_two_split_d1_left, 80, { two_leaf_proof::<69>(0x20, 0x60, 0x60) });
harness_sha!(c12x_proof_two_probe_elsewhere, 80, { two_leaf_proof::<69>(0x20, 0x60, 0xc0) });

/// three leaves in the rotation `ord`
fn three_leaf_root(x0: u8, y0: u8, z0: u8, ord: u8, want_of: fn(&[u8; 32], &[u8; 32], &[u8; 32]) -> [u8; 32]) {
    let x = hash_b0(x0, 0x62);
    let y = hash_b0(y0, 0x62);
    let z = hash_b0(z0, 0x62);
    let want = want_of(&x, &y, &z);
    let leafs = match ord {
        0 => [x, y, z],
        1 => [z, x, y],
        _ => [y, z, x],
    };
    roots(leafs, want);
    kani::cover!(true);
}
fn three_leaf_proof<const PLEN: usize>(x0: u8, y0: u8, z0: u8, p0: u8, want_of: fn(&[u8; 32], &[u8; 32], &[u8; 32]) -> [u8; 32]) {
    let x = hash_b0(x0, 0x62);
    let y = hash_b0(y0, 0x62);
    let z = hash_b0(z0, 0x62);
    let probe = hash_b0(p0, 0x62);
    honest_proof::<3, PLEN>([z, x, y], want_of(&x, &y, &z), probe);
}
// 0x20 | 0x60 || 0xa0: left side is a two-leaf middle (type 2), right side a leaf
fn want_split_top(x: &[u8; 32], y: &[u8; 32], z: &[u8; 32]) -> [u8; 32] {
    let inner = h_node(1, 1, x, y);
    h_node(2, 1, &inner, z)
}
harness_sha!(c12_root_three_split_top, 110, { three_leaf_root(0x20, 0x60, 0xa0, 1, want_split_top) });
harness_sha!(c12t_root_three_split_top_sorted, 110, { three_leaf_root(0x20, 0x60, 0xa0, 0, want_split_top) });
harness_sha!(c12x_proof_three_split_top, 110, { three_leaf_proof::<101>(0x20, 0x60, 0xa0, 0x60, want_split_top) });
// 0x10, 0x30 | 0x50, nothing on the right at depth 0: the plain middle gets an explicit EMPTY sibling
fn want_left_heavy(x: &[u8; 32], y: &[u8; 32], z: &[u8; 32]) -> [u8; 32] {
    let inner = h_node(1, 1, x, y);
    let mid = h_node(2, 1, &inner, z);
    h_node(2, 0, &mid, &[0u8; 32])
}
harness_sha!(c12_root_three_left_heavy, 110, { three_leaf_root(0x10, 0x30, 0x50, 2, want_left_heavy) });
harness_sha!(c12x_proof_three_left_heavy, 110, { three_leaf_proof::<103>(0x10, 0x30, 0x50, 0x30, want_left_heavy) });
// mirrored: 0x90, 0xb0 | 0xd0 with nothing on the left at depth 0
fn want_right_heavy(x: &[u8; 32], y: &[u8; 32], z: &[u8; 32]) -> [u8; 32] {
    let inner = h_node(1, 1, x, y);
    let mid = h_node(2, 1, &inner, z);
    h_node(0, 2, &[0u8; 32], &mid)
}
harness_sha!(c12t_root_three_right_heavy, 110, { three_leaf_root(0x90, 0xb0, 0xd0, 1, want_right_heavy) });

// duplicates collapse: [l, l] has the root of [l]; [l0, l1, l0] the root of [l0, l1]
// (the duplicate pair travels down all 256 levels: recursion unwinding 260)
harness_sha!(c12x_root_duplicates, 260, {
    let mut l = [0x5au8; 32];
    l[31] = kani::any();
    let mut s = [l, l];
    assert!(compute_merkle_set_root(&mut s) == h_leaf(&l), "duplicates collapse (set semantics)");
    let mut s2 = [l, l];
    let t = MerkleSet::from_leafs(&mut s2);
    assert!(t.get_root() == h_leaf(&l));
    std::mem::forget(t);
});

// honest proofs on a 2-element set: root is canonical (order, duplicates), both root
// computations agree, every generated proof verifies and states membership correctly
harness_sha!(c12x_honest_two_leaves, 70, {
    let l0 = hash_b0(0x20, 0x61);
    let l1 = hash_b0(0xa0, 0x62);
    let x = hash_b0(0xa0, 0x62);
    let mut s1 = [l0, l1];
    let mut s2 = [l1, l0];
    let mut s3 = [l0, l1, l0];
    let r1 = compute_merkle_set_root(&mut s1);
    let r2 = compute_merkle_set_root(&mut s2);
    let r3 = compute_merkle_set_root(&mut s3);
    assert!(r1 == r2, "root does not depend on the order");
    assert!(r1 == r3, "root does not depend on duplicates");
    let mut s4 = [l0, l1];
    let t = MerkleSet::from_leafs(&mut s4);
    assert!(t.get_root() == r1, "both root computations agree");
    let (inc, proof) = t.generate_proof(&x).unwrap();
    assert!(inc == (x == l0 || x == l1));
    let v = validate_merkle_proof(&proof, &x, &r1);
    assert!(matches!(v, Ok(b) if b == inc), "the generated proof verifies and states membership correctly");
    kani::cover!(inc);
    kani::cover!(!inc);
    std::mem::forget(proof);
    std::mem::forget(t);
});

