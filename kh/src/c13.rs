//! C13 — wire encoding is a canonical bijection consistent with hashing;
//! C14 — decoding arbitrary bytes is total and bounded (same harnesses: Kani's panic,
//! overflow, bounds and unwrap checks are on).
//!
//! For a type T and ALL byte strings of a given length N:
//!   from_bytes(b) = Ok(v)  =>  to_bytes(v) = b                       (one encoding per value)
//!                          =>  from_bytes_unchecked(b) = Ok(v)       (trusted >= untrusted)
//!                          =>  streaming hash of v = SHA-256(b)      (hash of the encoding)
//!   both decoders, re-encode, hash and == return (no panic) for every b.
use crate::h::*;
use crate::stubs::{self, G};
use chia_protocol::{Bytes, Bytes32, BytesImpl, Coin, CoinState, ProofOfSpace, SubEpochData};
use chia_sha2::Sha256;
use chia_traits::chia_error::Error;
use chia_traits::Streamable;

fn wire<T: Streamable + PartialEq, const N: usize>() -> bool {
    wire_with::<T, N>(None)
}

/// `prefix`: fix the first four bytes (a length prefix) to this value; everything else
/// symbolic. (A symbolic length prefix makes `Vec::with_capacity` a symbolic-size
/// allocation, which CBMC does not get through: > 12 GB.)
fn wire_with<T: Streamable + PartialEq, const N: usize>(prefix: Option<u32>) -> bool {
    wire_fixed::<T, N>(prefix, &[])
}

/// `fixed`: byte ranges (inclusive) set to a constant -- the inside of 32-byte hash fields, whose
/// content no decoder looks at; everything else symbolic
fn wire_fixed<T: Streamable + PartialEq, const N: usize>(prefix: Option<u32>, fixed: &[(usize, usize)]) -> bool {
    let mut b: [u8; N] = kani::any();
    let mut r = 0;
    while r < fixed.len() {
        let mut i = fixed[r].0;
        while i <= fixed[r].1 {
            b[i] = 0x5c;
            i += 1;
        }
        r += 1;
    }
    if let Some(p) = prefix {
        let pb = p.to_be_bytes();
        b[0] = pb[0];
        b[1] = pb[1];
        b[2] = pb[2];
        b[3] = pb[3];
    }
    let r = T::from_bytes(&b);
    let r2 = T::from_bytes_unchecked(&b);
    let mut ok = false;
    match r {
        Ok(v) => {
            ok = true;
            let out = v.to_bytes().unwrap();
            assert!(out.len() == N, "re-encoding has the input's length");
            let mut i = 0;
            while i < N {
                assert!(out[i] == b[i], "re-encoding reproduces the input bytes");
                i += 1;
            }
            match r2 {
                Ok(v2) => {
                    assert!(v2 == v, "trusted decoding yields the same value");
                    std::mem::forget(v2);
                }
                Err(_) => assert!(false, "trusted decoding accepts what untrusted decoding accepts"),
            }
            let h = v.hash();
            if stubs::active() {
                assert!(stubs::rec_len() == N, "streaming hash consumes exactly the encoding");
                let mut j = 0;
                while j < N {
                    assert!(stubs::rec(j) == b[j], "streaming hash consumes exactly the encoding");
                    j += 1;
                }
            }
            let mut s = Sha256::new();
            s.update(&b);
            assert!(s.finalize() == h, "streaming hash = hash of the encoding");
            std::mem::forget(out);
            std::mem::forget(v);
        }
        Err(_) => {
            std::mem::forget(r2);
        }
    }
    ok
}

macro_rules! wire_inst {
    ($name:ident, $t:ty, $n:expr, $unwind:expr, $must_accept:expr) => {
        wire_harness!($name, $unwind, {
            let ok = wire::<$t, $n>();
            if $must_accept {
                kani::cover!(ok);
            } else {
                assert!(!ok, "no value has an encoding of this length");
            }
            kani::cover!(true);
        });
    };
}

// primitives
wire_inst!(c13_u8, u8, 1, 36, true);
wire_inst!(c13_i8, i8, 1, 36, true);
wire_inst!(c13_u16, u16, 2, 36, true);
wire_inst!(c13_i16, i16, 2, 36, true);
wire_inst!(c13_u32, u32, 4, 36, true);
wire_inst!(c13_i32, i32, 4, 36, true);
wire_inst!(c13_u64, u64, 8, 36, true);
wire_inst!(c13_i64, i64, 8, 36, true);
wire_inst!(c13_u128, u128, 16, 36, true);
wire_inst!(c13_i128, i128, 16, 36, true);
wire_inst!(c13_bool, bool, 1, 36, true);
wire_inst!(c13_unit, (), 0, 36, true);
// wrong lengths are rejected (trailing / missing bytes)
wire_inst!(c13_u32_short, u32, 3, 36, false);
wire_inst!(c13_u32_long, u32, 5, 36, false);
wire_inst!(c13_bool_long, bool, 2, 36, false);
// combinators
wire_inst!(c13_opt_u32_n1, Option<u32>, 1, 36, true);
wire_inst!(c13_opt_u32_n5, Option<u32>, 5, 36, true);
wire_inst!(c13_opt_u32_n3, Option<u32>, 3, 36, false);
wire_inst!(c13_tuple2_n3, (u16, bool), 3, 36, true);
wire_inst!(c13_tuple3_n4, (Option<u8>, u16, bool), 4, 36, true);
wire_inst!(c13_tuple3_n5, (Option<u8>, u16, bool), 5, 36, true);
wire_inst!(c13_tuple4_n6, (bool, Option<bool>, u8, Option<u16>), 6, 36, true);
wire_inst!(c13_array_u16x3, [u16; 3], 6, 36, true);
wire_inst!(c13_bytes32, Bytes32, 32, 36, true);
wire_inst!(c13_bytes4, BytesImpl<4>, 4, 36, true);
// length-prefixed sequences: length prefix fixed per instance (right, too small, too big,
// huge), element bytes symbolic
macro_rules! seq_inst {
    ($name:ident, $t:ty, $n:expr, $prefix:expr, $must_accept:expr) => {
        wire_harness!($name, 36, {
            let ok = wire_with::<$t, $n>(Some($prefix));
            if $must_accept {
                kani::cover!(ok);
            } else {
                assert!(!ok, "length prefix inconsistent with the buffer: rejected");
            }
            kani::cover!(true);
        });
    };
}
seq_inst!(c13_vec_u8_n4_len0, Vec<u8>, 4, 0, true);
seq_inst!(c13_vec_u8_n6_len2, Vec<u8>, 6, 2, true);
seq_inst!(c13_vec_u8_n6_len1, Vec<u8>, 6, 1, false);
seq_inst!(c13_vec_u8_n6_len3, Vec<u8>, 6, 3, false);
seq_inst!(c13t_vec_u8_n6_lenmax, Vec<u8>, 6, 0xffff_ffff, false);
seq_inst!(c13_vec_u16_n8_len2, Vec<u16>, 8, 2, true);
// Bytes reads its payload in one piece: the prefix can stay symbolic
wire_inst!(c13_bytes_n6, Bytes, 6, 36, true);
wire_inst!(c13_opt_bytes_n7, Option<Bytes>, 7, 36, true);
// derived structs
wire_inst!(c13_coin, Coin, 72, 80, true);
wire_inst!(c13t_coin_state_n74, CoinState, 74, 90, true);
wire_inst!(c13t_coin_state_n82, CoinState, 82, 90, true);

// hand-written codecs that pack TWO optionals into one prefix byte (chia_protocol::utils::{parse,
// stream,update_digest}; values 0..3, anything else rejected): all byte strings of each valid length
// (the inside of the 32-byte hash fields fixed, every prefix / integer / boundary byte symbolic)
// SubEpochData: 32 + 1 + Option<u64> + shared(Option<u64>, Option<Bytes32>)
macro_rules! packed_inst {
    ($name:ident, $t:ty, $n:expr, $unwind:expr, $fixed:expr, $must_accept:expr) => {
        wire_harness!($name, $unwind, {
            let ok = wire_fixed::<$t, $n>(None, $fixed);
            if $must_accept {
                kani::cover!(ok);
            } else {
                assert!(!ok, "no value has an encoding of this length");
            }
            kani::cover!(true);
        });
    };
}
// 75 = both packed optionals present (prefix 3: 33+1+1+8+32) or (Some, prefix 2: 33+9+1+32)
packed_inst!(c13_sub_epoch_data_n75, SubEpochData, 75, 90, &[(1, 30), (44, 73)], true);
packed_inst!(c13t_sub_epoch_data_n35, SubEpochData, 35, 50, &[(1, 30)], true);
packed_inst!(c13t_sub_epoch_data_n43, SubEpochData, 43, 60, &[(1, 30)], true);
packed_inst!(c13t_sub_epoch_data_n67, SubEpochData, 67, 90, &[(1, 30), (36, 65)], true);
packed_inst!(c13t_sub_epoch_data_n36, SubEpochData, 36, 50, &[(1, 30)], false);

// String: UTF-8 validation inside
wire_harness!(c13t_string_n6, 36, {
    let ok = wire::<String, 6>();
    kani::cover!(ok);
});

// ---- hand-written codec: ProofOfSpace ------------------------------------------------------------
// all byte strings of the exact lengths of a v1 / v2 encoding with an empty or 1-byte proof

/// N = total length, P = proof length (the last P bytes, preceded by the 4-byte prefix).
/// The layout-deciding bytes (pool-key Option prefix `opt`, version/contract prefix `pre`)
/// are fixed per instance -- with them symbolic the cursor position becomes symbolic and
/// CBMC runs out of memory -- the scalar fields, the proof and the first byte of the hashes
/// are symbolic.
fn pos_wire<const N: usize, const P: usize>(opt: u8, pre: u8, quality_some: bool) -> bool {
    unsafe { G.pos_quality_some = quality_some };
    let mut b = [0x33u8; N];
    b[0] = kani::any();
    b[32] = opt;
    let pre_at = if opt == 0 { 33 } else { 33 + 48 };
    b[pre_at] = pre;
    if pre & 1 != 0 {
        b[pre_at + 1] = kani::any(); // contract hash
    }
    // key bodies stay fixed (valid tokens): a symbolic byte inside the 144-byte blst_p1
    // storage that models a key makes CBMC run out of memory (byte-level type punning)
    let mut t = N - 8 - P;
    while t < N {
        // scalar fields (size | plot index, meta group, strength), proof
        b[t] = kani::any();
        t += 1;
    }
    // proof length prefix: the right one (a symbolic one makes the proof copy a
    // symbolic-size allocation; wrong prefixes are exercised on `Bytes` itself)
    let pl = (P as u32).to_be_bytes();
    b[N - 4 - P] = pl[0];
    b[N - 3 - P] = pl[1];
    b[N - 2 - P] = pl[2];
    b[N - 1 - P] = pl[3];
    let r = ProofOfSpace::from_bytes(&b);
    let r2 = ProofOfSpace::from_bytes_unchecked(&b);
    let mut ok = false;
    if let Ok(v) = r {
        ok = true;
        let out = v.to_bytes().unwrap();
        assert!(out.len() == N, "re-encoding has the input's length");
        let mut i = 0;
        while i < N {
            assert!(out[i] == b[i], "re-encoding reproduces the input bytes");
            i += 1;
        }
        match r2 {
            Ok(v2) => {
                // (compared through their encodings: `==` on keys is a blst FFI call)
                let out2 = v2.to_bytes().unwrap();
                assert!(out2.len() == N, "trusted decoding yields the same value");
                let mut k = 0;
                while k < N {
                    assert!(out2[k] == out[k], "trusted decoding yields the same value");
                    k += 1;
                }
                std::mem::forget(out2);
                std::mem::forget(v2);
            }
            Err(_) => assert!(false, "trusted decoding accepts what untrusted decoding accepts"),
        }
        // version packing; exactly one of pool key / pool contract for version-2 proofs
        assert!(pre >> 1 <= 1, "only versions 0 and 1 decode");
        if pre >> 1 == 1 {
            assert!((opt != 0) != (pre & 1 != 0), "v2: pool key xor pool contract");
        }
        // the operation a receiver performs on every decoded block
        let h = v.hash();
        if stubs::active() {
            if pre >> 1 == 0 {
                assert!(stubs::rec_len() == N, "v1: hash of the encoding");
                let mut j = 0;
                while j < N {
                    assert!(stubs::rec(j) == b[j], "v1: hash of the encoding");
                    j += 1;
                }
            } else {
                // version 2: the encoding with the length-prefixed proof replaced by the
                // 32-byte quality-string commitment
                let head = N - 4 - P;
                assert!(stubs::rec_len() == head + 32, "v2: proof replaced by its commitment");
                let mut j = 0;
                while j < head {
                    assert!(stubs::rec(j) == b[j], "v2: everything before the proof is hashed as encoded");
                    j += 1;
                }
                assert!(stubs::rec(head) == 0x51 && stubs::rec(head + 31) == 0x51);
            }
        }
        let _ = h;
        std::mem::forget(out);
        std::mem::forget(v);
    } else {
        std::mem::forget(r2);
    }
    ok
}

macro_rules! pos_inst {
    ($name:ident, $n:expr, $p:expr, $opt:expr, $pre:expr, $q:expr, $must_accept:expr) => {
        wire_harness!($name, 180, {
            let ok = pos_wire::<$n, $p>($opt, $pre, $q);
            if $must_accept {
                kani::cover!(ok);
            } else {
                assert!(!ok, "malformed proof-of-space prefix: rejected");
            }
            kani::cover!(true);
        });
    };
}
// v1, pool contract only: 32+1 +1+32 +48 +1 +4+P
pos_inst!(c13_pos_v1_contract, 119, 0, 0, 0b01, true, true);
pos_inst!(c13t_pos_v1_contract_p1, 120, 1, 0, 0b01, true, true);
// v1, pool key only: 32+1+48 +1 +48 +1 +4
pos_inst!(c13_pos_v1_poolkey, 135, 0, 1, 0b00, true, true);
// v1, both / neither are representable in v1
pos_inst!(c13t_pos_v1_neither, 87, 0, 0, 0b00, true, true);
// v2, pool contract only: 32+1 +1+32 +48 +2+1+1 +4+P
pos_inst!(c13_pos_v2_contract, 122, 0, 0, 0b11, true, true);
pos_inst!(c13t_pos_v2_contract_p1, 123, 1, 0, 0b11, true, true);
// v2, pool key only: 32+1+48 +1 +48 +4 +4
pos_inst!(c13_pos_v2_poolkey, 138, 0, 1, 0b10, true, true);
// v2 with both or neither: rejected
pos_inst!(c13_pos_v2_both, 170, 0, 1, 0b11, true, false);
pos_inst!(c13_pos_v2_neither, 90, 0, 0, 0b10, true, false);
// perturbed prefixes: Option byte 2, version 2 and 3, high bits
pos_inst!(c13_pos_bad_option, 119, 0, 2, 0b01, true, false);
pos_inst!(c13_pos_bad_version2, 122, 0, 0, 0b101, true, false);
pos_inst!(c13t_pos_bad_version3, 122, 0, 0, 0b111, true, false);
pos_inst!(c13t_pos_bad_prefix_high, 122, 0, 0, 0x83, true, false);

// C14: the same decode of a version-2 proof that does NOT validate (the decoder cannot
// know); every operation a receiver performs on the decoded value must return
pos_inst!(c14_pos_v2_invalid_proof_hash, 122, 0, 0, 0b11, false, true);

// ---- C14: a symbolic (attacker-chosen) length prefix neither loops nor pre-allocates beyond the cap

pub fn with_capacity_probe<T>(n: usize) -> Vec<T> {
    unsafe { G.cap_seen = n };
    Vec::new()
}

#[kani::proof]
#[kani::unwind(9)]
#[kani::stub(std::vec::Vec::with_capacity, with_capacity_probe)]
fn c14_vec_length_prefix_bounded() {
    // Vec<u32> from a 10-byte buffer whose 4-byte length prefix is arbitrary (up to 2^32-1)
    let b: [u8; 10] = kani::any();
    #[cfg(test)]
    crate::native_alloc::MAX_SINGLE.store(0, std::sync::atomic::Ordering::Relaxed);
    let r = <Vec<u32> as Streamable>::from_bytes(&b);
    // under Kani: the capacity handed to Vec::with_capacity (probe stub); natively (replay): the
    // largest single allocation request seen by the counting allocator
    #[cfg(not(test))]
    let reserved = unsafe { G.cap_seen } * std::mem::size_of::<u32>();
    #[cfg(test)]
    let reserved = crate::native_alloc::MAX_SINGLE.load(std::sync::atomic::Ordering::Relaxed);
    assert!(reserved <= 2 * 1024 * 1024, "pre-allocation capped at 2 MiB");
    let len = u32::from_be_bytes([b[0], b[1], b[2], b[3]]);
    // 6 payload bytes hold one element and a half: nothing decodes
    assert!(r.is_err());
    kani::cover!(len == u32::MAX);
    kani::cover!(len == 1);
    std::mem::forget(r);
}
