//! C17 — every tree-hash routine computes the same hash: the plain iterative routine and
//! the memoizing one (fresh cache, and a cache reused across trees) agree with the recursive
//! definition H(1 || atom) / H(2 || H(left) || H(right)), for every hash function H that
//! maps the 24 small-atom preimages to the baked table (S3, see stubs::sha_finalize_precomputed).
use crate::h::*;
use crate::stubs;
use chia_sha2::Sha256;
use clvm_utils::{tree_hash, tree_hash_atom, tree_hash_cached, tree_hash_pair, TreeCache, TreeHash};
use clvmr::allocator::{Allocator, NodePtr, SExp};

/// the definition, by recursion on the tree
fn ref_hash(a: &Allocator, n: NodePtr) -> [u8; 32] {
    match a.sexp(n) {
        SExp::Atom => {
            let mut h = Sha256::new();
            h.update([1u8]);
            h.update(a.atom(n));
            h.finalize()
        }
        SExp::Pair(l, r) => {
            let hl = ref_hash(a, l);
            let hr = ref_hash(a, r);
            let mut h = Sha256::new();
            h.update([2u8]);
            h.update(hl);
            h.update(hr);
            h.finalize()
        }
    }
}

/// leaves: the small-integer atoms around the precomputed table's edges (NodePtr-embedded),
/// and heap atoms with symbolic content (one of them holding a small integer's bytes)
struct Leaves {
    nil: NodePtr,
    one: NodePtr,
    s23: NodePtr,
    s24: NodePtr,
    s200: NodePtr,
    h1: NodePtr,
    h3: NodePtr,
}

fn leaves(a: &mut Allocator) -> Leaves {
    let (h1, _) = sym_heap_atom::<1>(a);
    let (h3, _) = sym_heap_atom::<3>(a);
    Leaves {
        nil: NodePtr::NIL,
        one: a.new_small_number(1).unwrap(),
        s23: a.new_small_number(23).unwrap(),
        s24: a.new_small_number(24).unwrap(),
        s200: a.new_small_number(200).unwrap(),
        h1,
        h3,
    }
}

fn pick(l: &Leaves, k: u8) -> NodePtr {
    match k {
        0 => l.nil,
        1 => l.one,
        2 => l.s23,
        3 => l.s24,
        4 => l.s200,
        5 => l.h1,
        _ => l.h3,
    }
}

fn check_all(a: &Allocator, n: NodePtr) {
    let want = ref_hash(a, n);
    let plain = tree_hash(a, n);
    assert!(plain.to_bytes() == want, "plain tree hash = definition");
    let mut cache = TreeCache::default();
    let cached = tree_hash_cached(a, n, &mut cache);
    assert!(cached.to_bytes() == want, "memoizing tree hash (fresh cache) = definition");
    // the same cache again: now everything memoizable is cached
    let again = tree_hash_cached(a, n, &mut cache);
    assert!(again.to_bytes() == want, "memoizing tree hash (warm cache) = definition");
    std::mem::forget(cache);
}

// single atoms: every leaf kind
macro_rules! leaf_inst {
    ($name:ident, $k:expr) => {
        th_harness!($name, 40, {
            let mut a = Allocator::new();
            let l = leaves(&mut a);
            check_all(&a, pick(&l, $k));
            kani::cover!(true);
            std::mem::forget(a);
        });
    };
}
leaf_inst!(c17_leaf_nil, 0);
leaf_inst!(c17_leaf_one, 1);
leaf_inst!(c17_leaf_23, 2);
leaf_inst!(c17_leaf_24, 3);
leaf_inst!(c17_leaf_200, 4);
leaf_inst!(c17_leaf_heap1, 5);
leaf_inst!(c17_leaf_heap3, 6);

// (x . y): x, y concrete leaf kinds per instance
macro_rules! pair_inst {
    ($name:ident, $x:expr, $y:expr) => {
        th_harness!($name, 70, {
            let mut a = Allocator::new();
            let l = leaves(&mut a);
            let p = a.new_pair(pick(&l, $x), pick(&l, $y)).unwrap();
            check_all(&a, p);
            kani::cover!(true);
            std::mem::forget(a);
        });
    };
}
pair_inst!(c17_pair_nil_23, 0, 2);
pair_inst!(c17_pair_24_heap1, 3, 5);
pair_inst!(c17t_pair_heap3_200, 6, 4);

// DAG sharing: ((x . y) . (x . y)) with ONE shared inner pair (seen twice => memoized),
// and the same shape with two separate inner pairs
th_harness!(c17_dag_shared_inner, 110, {
    let mut a = Allocator::new();
    let l = leaves(&mut a);
    let inner = a.new_pair(l.s23, l.h1).unwrap();
    let shared = a.new_pair(inner, inner).unwrap();
    check_all(&a, shared);
    let inner2 = a.new_pair(l.s23, l.h1).unwrap();
    let unshared = a.new_pair(inner, inner2).unwrap();
    // sharing in memory does not change the hash
    assert!(tree_hash(&a, shared) == tree_hash(&a, unshared));
    let mut cache = TreeCache::default();
    assert!(tree_hash_cached(&a, shared, &mut cache) == tree_hash_cached(&a, unshared, &mut cache));
    kani::cover!(true);
    std::mem::forget(cache);
    std::mem::forget(a);
});

// history: two different trees hashed through ONE cache, in both orders, after each
// other; what the cache saw before never changes a result
th_harness!(c17_cache_history, 110, {
    let mut a = Allocator::new();
    let l = leaves(&mut a);
    let inner = a.new_pair(l.one, l.h3).unwrap();
    let t1 = a.new_pair(inner, inner).unwrap();
    let t2 = a.new_pair(l.s24, inner).unwrap();
    let w1 = ref_hash(&a, t1);
    let w2 = ref_hash(&a, t2);
    let first: bool = kani::any();
    let mut cache = TreeCache::default();
    if first {
        assert!(tree_hash_cached(&a, t1, &mut cache).to_bytes() == w1);
        assert!(tree_hash_cached(&a, t2, &mut cache).to_bytes() == w2);
        assert!(tree_hash_cached(&a, t1, &mut cache).to_bytes() == w1);
    } else {
        assert!(tree_hash_cached(&a, t2, &mut cache).to_bytes() == w2);
        assert!(tree_hash_cached(&a, t1, &mut cache).to_bytes() == w1);
        assert!(tree_hash_cached(&a, t2, &mut cache).to_bytes() == w2);
    }
    kani::cover!(first);
    kani::cover!(!first);
    std::mem::forget(cache);
    std::mem::forget(a);
});

// framing of the two primitives: prefix 1 for atoms, prefix 2 for pairs
harness_sha!(c17_framing, 70, {
    let b: [u8; 5] = kani::any();
    let h = tree_hash_atom(&b);
    if stubs::active() {
        assert!(stubs::rec_len() == 6 && stubs::rec(0) == 1);
        let mut i = 0;
        while i < 5 {
            assert!(stubs::rec(1 + i) == b[i]);
            i += 1;
        }
    }
    let x: [u8; 32] = kani::any();
    let y: [u8; 32] = kani::any();
    let p = tree_hash_pair(TreeHash::new(x), TreeHash::new(y));
    if stubs::active() {
        assert!(stubs::rec_len() == 65 && stubs::rec(0) == 2);
        let mut i = 0;
        while i < 32 {
            assert!(stubs::rec(1 + i) == x[i] && stubs::rec(33 + i) == y[i]);
            i += 1;
        }
    }
    let _ = (h, p);
});

// the baked table holds the real SHA-256 digests: the REAL (software) compression function,
// one block, on 0x01 || i for symbolic i in 1..23 (one merged comparison = one SAT call)
#[kani::proof]
#[kani::unwind(70)]
fn c17t_precomputed_table_real_sha() {
    let i: u8 = kani::any();
    kani::assume(i >= 1 && i < 24);
    let mut h = Sha256::new();
    h.update([1u8, i]);
    let d = h.finalize();
    let want = clvm_utils::PRECOMPUTED_HASHES[i as usize].to_bytes();
    let mut eq = true;
    let mut k = 0;
    while k < 32 {
        eq &= d[k] == want[k];
        k += 1;
    }
    assert!(eq, "PRECOMPUTED_HASHES[i] = SHA-256(0x01 || i)");
}

// ---- curry_tree_hash: the hash computed from hashes alone = the tree hash of the actual curried
// program `(a (q . P) (c (q . A1) (c (q . A2) 1)))`, built (1) by the crate's own
// `CurriedProgram::to_clvm` and (2) by hand from pairs and the opcode atoms 1, 2, 4.
use clvm_traits::{clvm_curried_args, ToClvm};
use clvm_utils::{curry_tree_hash, CurriedProgram};

/// `(a (q . P) ARGS)` by hand; ARGS = `(c (q . A1) (c (q . A2) ... 1))`
pub fn curried_by_hand(a: &mut Allocator, program: NodePtr, args: &[NodePtr]) -> NodePtr {
    let op_q = a.new_small_number(1).unwrap();
    let op_a = a.new_small_number(2).unwrap();
    let op_c = a.new_small_number(4).unwrap();
    let mut quoted_args = a.new_small_number(1).unwrap();
    let mut i = args.len();
    while i > 0 {
        i -= 1;
        let qa = a.new_pair(op_q, args[i]).unwrap();
        let t = a.new_pair(quoted_args, NodePtr::NIL).unwrap();
        let t = a.new_pair(qa, t).unwrap();
        quoted_args = a.new_pair(op_c, t).unwrap();
    }
    let qp = a.new_pair(op_q, program).unwrap();
    let t = a.new_pair(quoted_args, NodePtr::NIL).unwrap();
    let t = a.new_pair(qp, t).unwrap();
    a.new_pair(op_a, t).unwrap()
}

/// one traversal only: `tree_hash` of the hand-built curried program (the plain routine is shown
/// equal to the recursive definition by the harnesses above) against `curry_tree_hash` of the
/// leaf hashes. Program and arguments are single leaves: the curried shape is what is checked.
th_harness!(c17t_curry_0args, 110, {
    let mut a = Allocator::new();
    let (program, _) = sym_heap_atom::<3>(&mut a);
    let hand = curried_by_hand(&mut a, program, &[]);
    let want = tree_hash(&a, hand);
    let got = curry_tree_hash(tree_hash(&a, program), &[]);
    assert!(got == want, "curry_tree_hash (no arguments) = tree hash of (a (q . P) 1)");
    kani::cover!(true);
    std::mem::forget(a);
});

th_harness!(c17t_curry_1arg, 160, {
    let mut a = Allocator::new();
    let (program, _) = sym_heap_atom::<3>(&mut a);
    let (arg1, _) = sym_heap_atom::<1>(&mut a);
    let hand = curried_by_hand(&mut a, program, &[arg1]);
    let want = tree_hash(&a, hand);
    let got = curry_tree_hash(tree_hash(&a, program), &[tree_hash(&a, arg1)]);
    assert!(got == want, "curry_tree_hash (1 argument) = tree hash of (a (q . P) (c (q . A1) 1))");
    kani::cover!(true);
    std::mem::forget(a);
});

th_harness!(c17t_curry_2args, 220, {
    let mut a = Allocator::new();
    let (program, _) = sym_heap_atom::<3>(&mut a);
    let (arg1, _) = sym_heap_atom::<1>(&mut a);
    let arg2 = a.new_small_number(200).unwrap();
    let hand = curried_by_hand(&mut a, program, &[arg1, arg2]);
    let want = tree_hash(&a, hand);
    let got = curry_tree_hash(tree_hash(&a, program), &[tree_hash(&a, arg1), tree_hash(&a, arg2)]);
    assert!(got == want, "curry_tree_hash (2 arguments, in order) = tree hash of the curried program");
    kani::cover!(true);
    std::mem::forget(a);
});

// quick tier: curry_tree_hash against the tree-hash DEFINITION written out for the curried shape
// (no allocator: all leaf hashes are arbitrary 32-byte values). With "tree_hash = the recursive
// definition" (harnesses above) and "CurriedProgram::to_clvm builds that shape" (below) this is
// "curry_tree_hash = tree hash of the actual curried program".
fn d_atom(b: &[u8]) -> [u8; 32] {
    let mut h = Sha256::new();
    h.update([1u8]);
    h.update(b);
    h.finalize()
}
fn d_pair(l: &[u8; 32], r: &[u8; 32]) -> [u8; 32] {
    let mut h = Sha256::new();
    h.update([2u8]);
    h.update(l);
    h.update(r);
    h.finalize()
}
/// hash of `(c (q . A) REST)` = (4 . ((1 . A) . (REST . nil)))
fn d_cons_quoted(arg: &[u8; 32], rest: &[u8; 32]) -> [u8; 32] {
    let q = d_pair(&d_atom(&[1]), arg);
    let t = d_pair(rest, &d_atom(&[]));
    d_pair(&d_atom(&[4]), &d_pair(&q, &t))
}
/// hash of `(a (q . P) ARGS)` = (2 . ((1 . P) . (ARGS . nil)))
fn d_apply(program: &[u8; 32], args: &[u8; 32]) -> [u8; 32] {
    let q = d_pair(&d_atom(&[1]), program);
    let t = d_pair(args, &d_atom(&[]));
    d_pair(&d_atom(&[2]), &d_pair(&q, &t))
}
fn leaf_hashes() -> ([u8; 32], [u8; 32], [u8; 32]) {
    // leaf hashes: bytes 0 and 31 symbolic (fully symbolic 32-byte values turn the comparison of
    // two xor-folded digest chains into a hard SAT instance)
    let mut p = [0x70u8; 32];
    let mut a1 = [0x71u8; 32];
    let mut a2 = [0x72u8; 32];
    p[0] = kani::any();
    p[31] = kani::any();
    a1[0] = kani::any();
    a1[31] = kani::any();
    a2[0] = kani::any();
    a2[31] = kani::any();
    (p, a1, a2)
}
th_harness!(c17_curry_definition_0args, 70, {
    let (p, _a1, _a2) = leaf_hashes();
    let one = d_atom(&[1]);
    let got0 = curry_tree_hash(TreeHash::new(p), &[]);
    assert!(got0.to_bytes() == d_apply(&p, &one), "no arguments: (a (q . P) 1)");
    kani::cover!(true);
});
th_harness!(c17t_curry_definition_1arg, 70, {
    let (p, a1, _a2) = leaf_hashes();
    let one = d_atom(&[1]);
    let got1 = curry_tree_hash(TreeHash::new(p), &[TreeHash::new(a1)]);
    assert!(got1.to_bytes() == d_apply(&p, &d_cons_quoted(&a1, &one)), "one argument: (a (q . P) (c (q . A1) 1))");
    kani::cover!(true);
});
th_harness!(c17t_curry_definition_2args, 70, {
    let (p, a1, a2) = leaf_hashes();
    let one = d_atom(&[1]);
    let got2 = curry_tree_hash(TreeHash::new(p), &[TreeHash::new(a1), TreeHash::new(a2)]);
    let args2 = d_cons_quoted(&a1, &d_cons_quoted(&a2, &one));
    assert!(got2.to_bytes() == d_apply(&p, &args2), "two arguments, first argument outermost");
    kani::cover!(true);
});

// the crate's own CurriedProgram::to_clvm builds exactly that shape (destructured pair by pair;
// program and argument are the very nodes passed in, the operators the atoms 2, 1, 4, 1)
fn uncons(a: &Allocator, n: NodePtr) -> (NodePtr, NodePtr) {
    match a.sexp(n) {
        SExp::Pair(l, r) => (l, r),
        SExp::Atom => {
            assert!(false, "expected a pair");
            (n, n)
        }
    }
}
harness!(c17_curried_program_shape, 30, {
    let mut a = Allocator::new();
    let (program, _) = sym_heap_atom::<3>(&mut a);
    let (arg1, _) = sym_heap_atom::<1>(&mut a);
    let args = clvm_curried_args!(arg1).to_clvm(&mut a).unwrap();
    let real = CurriedProgram { program, args }.to_clvm(&mut a).unwrap();
    // (2 . ((1 . P) . (ARGS . nil)))
    let (op_a, t) = uncons(&a, real);
    assert!(a.small_number(op_a) == Some(2));
    let (qp, t) = uncons(&a, t);
    let (q, p) = uncons(&a, qp);
    assert!(a.small_number(q) == Some(1) && p == program, "(q . P) with P the program node itself");
    let (cargs, nil) = uncons(&a, t);
    assert!(nil == NodePtr::NIL);
    // ARGS = (4 . ((1 . A1) . (1 . nil)))
    let (op_c, t) = uncons(&a, cargs);
    assert!(a.small_number(op_c) == Some(4));
    let (qa, t) = uncons(&a, t);
    let (q2, a1) = uncons(&a, qa);
    assert!(a.small_number(q2) == Some(1) && a1 == arg1, "(q . A1) with A1 the argument node itself");
    let (one, nil2) = uncons(&a, t);
    assert!(a.small_number(one) == Some(1) && nil2 == NodePtr::NIL, "argument list ends in the atom 1");
    kani::cover!(true);
    std::mem::forget(a);
});

// ---- tree_hash_from_bytes: hash of a serialization (with back-references) = the definition applied
// to the tree clvmr's deserializer yields for those bytes
use clvmr::serde::node_from_bytes_backrefs;
use clvm_utils::tree_hash_from_bytes;

fn from_bytes_agrees(buf: &[u8]) -> bool {
    let mut a = Allocator::new();
    let r = tree_hash_from_bytes(buf);
    let n = node_from_bytes_backrefs(&mut a, buf);
    let ok = match (r, n) {
        (Ok(h), Ok(node)) => {
            assert!(h == tree_hash(&a, node), "tree_hash_from_bytes = plain tree hash of the deserialized tree");
            true
        }
        (Err(_), Err(_)) => false,
        _ => {
            assert!(false, "tree_hash_from_bytes fails exactly when deserialization fails");
            false
        }
    };
    std::mem::forget(a);
    ok
}

// (A . (B . A)) plain, and the same tree with the second A as a back-reference
th_harness!(c17t_from_bytes_plain, 80, {
    let s: [u8; 3] = kani::any();
    let t: u8 = kani::any();
    kani::assume(t >= 1 && t < 0x80);
    let buf = [0xff, 0x83, s[0], s[1], s[2], 0xff, t, 0x83, s[0], s[1], s[2]];
    let ok = from_bytes_agrees(&buf);
    assert!(ok);
    kani::cover!(true);
});

th_harness!(c17t_from_bytes_backref, 80, {
    let s: [u8; 3] = kani::any();
    let t: u8 = kani::any();
    kani::assume(t >= 1 && t < 0x80);
    // ff <A> ff <B> fe <path>: the path selects an already parsed object from the parse stack
    let path: u8 = kani::any();
    kani::assume(path == 2 || path == 4 || path == 6 || path == 5);
    let buf = [0xff, 0x83, s[0], s[1], s[2], 0xff, t, 0xfe, path];
    let plain = [0xff, 0x83, s[0], s[1], s[2], 0xff, t, 0x83, s[0], s[1], s[2]];
    let r = tree_hash_from_bytes(&buf);
    let ok = from_bytes_agrees(&buf);
    // whichever path denotes A on the parse stack yields the hash of the plain serialization
    if let (Ok(h), Ok(hp)) = (r, tree_hash_from_bytes(&plain)) {
        kani::cover!(h == hp, "some back-reference path denotes the first atom");
    }
    kani::cover!(ok);
});
