//! C17 — every tree-hash routine computes the same hash: the plain iterative routine and
//! the memoizing one (fresh cache, and a cache reused across trees) agree with the recursive
//! definition H(1 || atom) / H(2 || H(left) || H(right)), for every hash function H that
//! maps the 24 small-atom preimages to the baked table (S3, see stubs::sha_finalize_precomputed).
use crate::h::*;
use crate::stubs;
use chia_sha2::Sha256;
use clvm_utils::{tree_hash, tree_hash_atom, tree_hash_cached, tree_hash_pair, TreeCache, TreeHash};
use clvmr::allocator::{Allocator, NodePtr, SExp};

/// the definition, by recursion on the tree
fn ref_hash(a: &Allocator, n: NodePtr) -> [u8; 32] {
    match a.sexp(n) {
        SExp::Atom => {
            let mut h = Sha256::new();
            h.update([1u8]);
            h.update(a.atom(n));
            h.finalize()
        }
        SExp::Pair(l, r) => {
            let hl = ref_hash(a, l);
            let hr = ref_hash(a, r);
            let mut h = Sha256::new();
            h.update([2u8]);
            h.update(hl);
            h.update(hr);
            h.finalize()
        }
    }
}

/// leaves: the small-integer atoms around the precomputed table's edges (NodePtr-embedded),
/// and heap atoms with symbolic content (one of them holding a small integer's bytes)
struct Leaves {
    nil: NodePtr,
    one: NodePtr,
    s23: NodePtr,
    s24: NodePtr,
    s200: NodePtr,
    h1: NodePtr,
    h3: NodePtr,
}

fn leaves(a: &mut Allocator) -> Leaves {
    let (h1, _) = sym_heap_atom::<1>(a);
    let (h3, _) = sym_heap_atom::<3>(a);
    Leaves {
        nil: NodePtr::NIL,
        one: a.new_small_number(1).unwrap(),
        s23: a.new_small_number(23).unwrap(),
        s24: a.new_small_number(24).unwrap(),
        s200: a.new_small_number(200).unwrap(),
        h1,
        h3,
    }
}

fn pick(l: &Leaves, k: u8) -> NodePtr {
    match k {
        0 => l.nil,
        1 => l.one,
        2 => l.s23,
        3 => l.s24,
        4 => l.s200,
        5 => l.h1,
        _ => l.h3,
    }
}

fn check_all(a: &Allocator, n: NodePtr) {
    let want = ref_hash(a, n);
    let plain = tree_hash(a, n);
    assert!(plain.to_bytes() == want, "plain tree hash = definition");
    let mut cache = TreeCache::default();
    let cached = tree_hash_cached(a, n, &mut cache);
    assert!(cached.to_bytes() == want, "memoizing tree hash (fresh cache) = definition");
    // the same cache again: now everything memoizable is cached
    let again = tree_hash_cached(a, n, &mut cache);
    assert!(again.to_bytes() == want, "memoizing tree hash (warm cache) = definition");
    std::mem::forget(cache);
}

// single atoms: every leaf kind
macro_rules! leaf_inst {
    ($name:ident, $k:expr) => {
        th_harness!($name, 40, {
            let mut a = Allocator::new();
            let l = leaves(&mut a);
            check_all(&a, pick(&l, $k));
            kani::cover!(true);
            std::mem::forget(a);
        });
    };
}
leaf_inst!(c17_leaf_nil, 0);
leaf_inst!(c17_leaf_one, 1);
leaf_inst!(c17_leaf_23, 2);
leaf_inst!(c17_leaf_24, 3);
leaf_inst!(c17_leaf_200, 4);
leaf_inst!(c17_leaf_heap1, 5);
leaf_inst!(c17_leaf_heap3, 6);

// (x . y): x, y concrete leaf kinds per instance
macro_rules! pair_inst {
    ($name:ident, $x:expr, $y:expr) => {
        th_harness!($name, 70, {
            let mut a = Allocator::new();
            let l = leaves(&mut a);
            let p = a.new_pair(pick(&l, $x), pick(&l, $y)).unwrap();
            check_all(&a, p);
            kani::cover!(true);
            std::mem::forget(a);
        });
    };
}
pair_inst!(c17_pair_nil_23, 0, 2);
pair_inst!(c17_pair_24_heap1, 3, 5);
pair_inst!(c17t_pair_heap3_200, 6, 4);

// DAG sharing: ((x . y) . (x . y)) with ONE shared inner pair (seen twice => memoized),
// and the same shape with two separate inner pairs
th_harness!(c17_dag_shared_inner, 110, {
    let mut a = Allocator::new();
    let l = leaves(&mut a);
    let inner = a.new_pair(l.s23, l.h1).unwrap();
    let shared = a.new_pair(inner, inner).unwrap();
    check_all(&a, shared);
    let inner2 = a.new_pair(l.s23, l.h1).unwrap();
    let unshared = a.new_pair(inner, inner2).unwrap();
    // sharing in memory does not change the hash
    assert!(tree_hash(&a, shared) == tree_hash(&a, unshared));
    let mut cache = TreeCache::default();
    assert!(tree_hash_cached(&a, shared, &mut cache) == tree_hash_cached(&a, unshared, &mut cache));
    kani::cover!(true);
    std::mem::forget(cache);
    std::mem::forget(a);
});

// history: two different trees hashed through ONE cache, in both orders, after each
// other; what the cache saw before never changes a result
th_harness!(c17_cache_history, 110, {
    let mut a = Allocator::new();
    let l = leaves(&mut a);
    let inner = a.new_pair(l.one, l.h3).unwrap();
    let t1 = a.new_pair(inner, inner).unwrap();
    let t2 = a.new_pair(l.s24, inner).unwrap();
    let w1 = ref_hash(&a, t1);
    let w2 = ref_hash(&a, t2);
    let first: bool = kani::any();
    let mut cache = TreeCache::default();
    if first {
        assert!(tree_hash_cached(&a, t1, &mut cache).to_bytes() == w1);
        assert!(tree_hash_cached(&a, t2, &mut cache).to_bytes() == w2);
        assert!(tree_hash_cached(&a, t1, &mut cache).to_bytes() == w1);
    } else {
        assert!(tree_hash_cached(&a, t2, &mut cache).to_bytes() == w2);
        assert!(tree_hash_cached(&a, t1, &mut cache).to_bytes() == w1);
        assert!(tree_hash_cached(&a, t2, &mut cache).to_bytes() == w2);
    }
    kani::cover!(first);
    kani::cover!(!first);
    std::mem::forget(cache);
    std::mem::forget(a);
});

// framing of the two primitives: prefix 1 for atoms, prefix 2 for pairs
harness_sha!(c17_framing, 70, {
    let b: [u8; 5] = kani::any();
    let h = tree_hash_atom(&b);
    if stubs::active() {
        assert!(stubs::rec_len() == 6 && stubs::rec(0) == 1);
        let mut i = 0;
        while i < 5 {
            assert!(stubs::rec(1 + i) == b[i]);
            i += 1;
        }
    }
    let x: [u8; 32] = kani::any();
    let y: [u8; 32] = kani::any();
    let p = tree_hash_pair(TreeHash::new(x), TreeHash::new(y));
    if stubs::active() {
        assert!(stubs::rec_len() == 65 && stubs::rec(0) == 2);
        let mut i = 0;
        while i < 32 {
            assert!(stubs::rec(1 + i) == x[i] && stubs::rec(33 + i) == y[i]);
            i += 1;
        }
    }
    let _ = (h, p);
});

// the baked table holds the real SHA-256 digests: the REAL (software) compression function,
// one block, on 0x01 || i for symbolic i in 1..23 (one merged comparison = one SAT call)
#[kani::proof]
#[kani::unwind(70)]
fn c17t_precomputed_table_real_sha() {
    let i: u8 = kani::any();
    kani::assume(i >= 1 && i < 24);
    let mut h = Sha256::new();
    h.update([1u8, i]);
    let d = h.finalize();
    let want = clvm_utils::PRECOMPUTED_HASHES[i as usize].to_bytes();
    let mut eq = true;
    let mut k = 0;
    while k < 32 {
        eq &= d[k] == want[k];
        k += 1;
    }
    assert!(eq, "PRECOMPUTED_HASHES[i] = SHA-256(0x01 || i)");
}
