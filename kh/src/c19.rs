//! C19 — mempool rewrites: the dedup / fast-forward eligibility flags of MempoolVisitor
//! (the flag half of the property; fast_forward_singleton needs run_program, see DESIGN.md).
use crate::arm::*;
use crate::h::*;
use crate::stubs::G;
use chia_consensus::conditions::*;
use chia_consensus::spend_visitor::SpendVisitor;
use chia_protocol::Bytes32;
use clvmr::allocator::{Allocator, NodePtr};
use std::sync::Arc;

const DEDUP: u32 = 1;
const FF: u32 = 4;

fn mk_spend(a: &mut Allocator, amount: u64) -> (SpendConditions, [u8; 32]) {
    let ph_b: [u8; 32] = kani::any();
    let parent = a.new_atom(&[1u8; 32]).unwrap();
    let ph = a.new_atom(&ph_b).unwrap();
    (SpendConditions::new(parent, amount, ph, Arc::new(Bytes32::new([3; 32])), 0), ph_b)
}

// new_spend: both flags start set, FF only for odd amounts
harness!(c19_new_spend, 4, {
    let mut a = Allocator::new();
    let amount: u64 = kani::any();
    let (mut sp, _) = mk_spend(&mut a, amount);
    let pre: u32 = kani::any();
    sp.flags = pre;
    let v = MempoolVisitor::new_spend(&mut sp);
    assert!(v.verif_counter() == 0);
    let want = pre | DEDUP | if amount & 1 == 1 { FF } else { 0 };
    assert!(sp.flags == want);
    kani::cover!(amount & 1 == 0);
    std::mem::forget(sp);
    std::mem::forget(a);
});

/// which flags a condition kind must clear (documented list in conditions.rs)
fn must_clear(kind: u8, mode: u8, counter: i32) -> u32 {
    match kind {
        K_MY_COIN_ID | K_HEIGHT_RELATIVE | K_SECONDS_RELATIVE | K_BEFORE_HEIGHT_RELATIVE | K_BEFORE_SECONDS_RELATIVE
        | K_MY_BIRTH_HEIGHT | K_MY_BIRTH_SECONDS | K_EPHEMERAL => FF,
        // singleton top layer emits ASSERT_MY_PARENT_ID as its second condition only
        K_MY_PARENT_ID => {
            if counter != 1 {
                FF
            } else {
                0
            }
        }
        K_AGG_SIG_ME | K_AGG_SIG_PARENT | K_AGG_SIG_PARENT_AMOUNT | K_AGG_SIG_PARENT_PUZZLE => DEDUP | FF,
        K_AGG_SIG_PUZZLE | K_AGG_SIG_AMOUNT | K_AGG_SIG_PUZZLE_AMOUNT | K_AGG_SIG_UNSAFE => DEDUP,
        // messages: never dedup; FF lost when the own side commits to the parent
        K_SEND_MESSAGE | K_RECEIVE_MESSAGE => DEDUP | if mode & 0b100 != 0 { FF } else { 0 },
        K_CREATE_COIN_ANN => FF,
        _ => 0,
    }
}

// condition(): for every condition kind, any prior flags, any counter
harness!(c19_condition_flags, 40, {
    let mut a = Allocator::new();
    let (mut sp, _) = mk_spend(&mut a, kani::any());
    let pre: u32 = kani::any();
    sp.flags = pre;
    let counter: i32 = kani::any();
    kani::assume(counter >= 0 && counter < i32::MAX);
    let mut v = MempoolVisitor::verif_with_counter(counter);
    let kind: u8 = kani::any();
    kani::assume(kind <= 35);
    let mode: u8 = kani::any();
    kani::assume(mode <= 7);
    let c = unsafe {
        G.p_u8 = mode;
        G.p_sid = kani::any();
        G.p_u64 = kani::any();
        G.p_u32 = kani::any();
        cond_build(kind)
    };
    v.condition(&mut sp, &c);
    let clear = must_clear(kind, mode, counter);
    assert!(sp.flags == pre & !clear, "exactly the documented flags are cleared");
    assert!(v.verif_counter() == counter + 1);
    // dedup-eligible spends emit no signature and no message conditions
    if sp.flags & DEDUP != 0 {
        assert!(!(kind >= K_AGG_SIG_UNSAFE || kind == K_SEND_MESSAGE || kind == K_RECEIVE_MESSAGE));
    }
    kani::cover!(kind == K_MY_PARENT_ID && counter == 1 && pre & FF != 0);
    kani::cover!(kind == K_SEND_MESSAGE && mode & 4 == 0 && pre & FF != 0);
    std::mem::forget(c);
    std::mem::forget(sp);
    std::mem::forget(a);
});

// post_spend(): dedup kept only if the spend creates at least as much as it consumes
// (128-bit sum); FF kept only if an output has the spend's own puzzle hash and amount
fn post_spend_n<const N: usize>() {
    let mut a = Allocator::new();
    let amount: u64 = kani::any();
    let (mut sp, ph_b) = mk_spend(&mut a, amount);
    let pre: u32 = kani::any();
    sp.flags = pre;
    let mut sum: u128 = 0;
    let mut has_self = false;
    let mut own_amounts = [None::<u64>; 4];
    let mut i = 0;
    while i < N {
        // outputs: either the spend's own puzzle hash or a fixed different one
        let own: bool = kani::any();
        let amt: u64 = kani::any();
        let mut ph = [0x77u8; 32];
        ph[0] = i as u8; // distinct outputs
        let ph = if own { ph_b } else { ph };
        kani::assume(own || ph != ph_b);
        // outputs of one spend are distinct (a duplicate is rejected as DuplicateOutput)
        if own {
            let mut j = 0;
            while j < i {
                kani::assume(own_amounts[j] != Some(amt));
                j += 1;
            }
            own_amounts[i] = Some(amt);
        }
        sp.create_coin.insert(NewCoin { puzzle_hash: Bytes32::new(ph), amount: amt, hint: NodePtr::NIL });
        sum += amt as u128;
        if own && amt == amount {
            has_self = true;
        }
        i += 1;
    }
    let mut v = MempoolVisitor::verif_with_counter(kani::any());
    v.post_spend(&a, &mut sp);
    let mut want = pre;
    if !has_self {
        want &= !FF;
    }
    if (amount as u128) > sum {
        want &= !DEDUP;
    }
    assert!(sp.flags == want);
    if sp.flags & DEDUP != 0 {
        assert!(sum >= amount as u128, "dedup-eligible => creates at least as much value as it consumes");
    }
    kani::cover!(sp.flags & DEDUP != 0 && pre & DEDUP != 0);
    kani::cover!(sp.flags & FF != 0 || N == 0);
    kani::cover!(sum > u64::MAX as u128 || N < 2);
    std::mem::forget(sp);
    std::mem::forget(a);
}
harness!(c19_post_spend_0, 40, { post_spend_n::<0>() });
harness!(c19_post_spend_1, 40, { post_spend_n::<1>() });
harness!(c19_post_spend_2, 40, { post_spend_n::<2>() });

// ---- dedup fingerprint: an injective, length-prefixed encoding of what parse_args sees ----------

use chia_consensus::flags::ConsensusFlags;
use chia_consensus::puzzle_fingerprint::compute_puzzle_fingerprint;
use crate::stubs;

fn expect_atom(pos: &mut usize, bytes: &[u8]) {
    // u32 big-endian length prefix, then the bytes
    let l = bytes.len() as u32;
    let p = l.to_be_bytes();
    let mut i = 0;
    while i < 4 {
        assert!(stubs::rec(*pos + i) == p[i], "length prefix of every hashed atom");
        i += 1;
    }
    *pos += 4;
    let mut j = 0;
    while j < bytes.len() {
        assert!(stubs::rec(*pos + j) == bytes[j], "atom bytes");
        j += 1;
    }
    *pos += bytes.len();
}

/// CREATE_COIN with every memo shape: the hashed stream is
/// enc(opcode) || enc(puzzle hash) || enc(amount) || enc(hint or empty), where the hint is
/// exactly the one the real parse_args derives for the same list.
fn fingerprint_create_coin<const LA: usize>() {
    let mut a = Allocator::new();
    let phb: [u8; 32] = kani::any();
    let ph = a.new_atom(&phb).unwrap();
    let (amt, amt_b) = sym_heap_atom::<LA>(&mut a);
    let hb: [u8; 32] = kani::any();
    let h32 = a.new_atom(&hb).unwrap();
    let h33 = a.new_atom(&[3u8; 33]).unwrap();
    let h1b: [u8; 1] = [0x7f];
    let h1 = a.new_atom(&h1b).unwrap();
    let some_pair = a.new_pair(h1, h1).unwrap();
    let m_atom = a.new_atom(&[9, 9]).unwrap();
    let hsel: u8 = kani::any();
    kani::assume(hsel < 6);
    // (first element of the memo list, its length if an atom <= 32, is the memo a list)
    let (memo_first, memo_is_list) = match hsel {
        0 => (NodePtr::NIL, true),
        1 => (h1, true),
        2 => (h32, true),
        3 => (h33, true),
        4 => (some_pair, true),
        _ => (NodePtr::NIL, false),
    };
    let memo_list = a.new_pair(memo_first, NodePtr::NIL).unwrap();
    let memo = if memo_is_list { memo_list } else { m_atom };
    let with_memo: bool = kani::any();
    let l3 = a.new_pair(memo, NodePtr::NIL).unwrap();
    let l2 = a.new_pair(amt, if with_memo { l3 } else { NodePtr::NIL }).unwrap();
    let args = a.new_pair(ph, l2).unwrap();
    let opn = a.new_atom(&[51]).unwrap();
    let cond = a.new_pair(opn, args).unwrap();
    let list = a.new_pair(cond, NodePtr::NIL).unwrap();

    let r = compute_puzzle_fingerprint(&a, list);
    assert!(r.is_ok());
    if stubs::active() {
        let mut pos = 0usize;
        expect_atom(&mut pos, &[51]);
        expect_atom(&mut pos, &phb);
        expect_atom(&mut pos, &amt_b);
        // the hint the validated conditions would report
        let hint: &[u8] = if with_memo && memo_is_list {
            match hsel {
                1 => &h1b,
                2 => &hb,
                _ => &[],
            }
        } else {
            &[]
        };
        expect_atom(&mut pos, hint);
        assert!(stubs::rec_len() == pos, "nothing else is hashed");
    }
    // consistency with the real parse_args (mempool flags) on the same arguments
    let fl = ConsensusFlags::from_bits_retain(0x8_0000 | 0x2_0000);
    if let Ok(Condition::CreateCoin(p, _v, hint_node)) = chia_consensus::conditions::parse_args(&a, args, 51, fl) {
        assert!(p == ph);
        let want = if with_memo && memo_is_list && (hsel == 1 || hsel == 2) { memo_first } else { NodePtr::NIL };
        assert!(hint_node == want, "fingerprint and parse_args agree on what the hint is");
    }
    kani::cover!(with_memo && hsel == 2);
    kani::cover!(with_memo && hsel == 3);
    kani::cover!(!with_memo);
    std::mem::forget(a);
}
harness_sha!(c19_fingerprint_create_coin_a2, 40, { fingerprint_create_coin::<2>() });
harness_sha!(c19t_fingerprint_create_coin_a0, 40, { fingerprint_create_coin::<0>() });
harness_sha!(c19t_fingerprint_create_coin_a8, 40, { fingerprint_create_coin::<8>() });

/// one-argument conditions: enc(opcode) || enc(arg); further arguments are not hashed
fn fingerprint_one_arg<const L: usize>(op: u8) {
    let mut a = Allocator::new();
    let (x, xb) = sym_heap_atom::<L>(&mut a);
    let extra = a.new_atom(&[0x42, 0x43]).unwrap();
    let with_extra: bool = kani::any();
    let l2 = a.new_pair(extra, NodePtr::NIL).unwrap();
    let args = a.new_pair(x, if with_extra { l2 } else { NodePtr::NIL }).unwrap();
    let opn = a.new_atom(&[op]).unwrap();
    let cond = a.new_pair(opn, args).unwrap();
    let list = a.new_pair(cond, NodePtr::NIL).unwrap();
    let r = compute_puzzle_fingerprint(&a, list);
    assert!(r.is_ok());
    if stubs::active() {
        let mut pos = 0usize;
        expect_atom(&mut pos, &[op]);
        expect_atom(&mut pos, &xb);
        assert!(stubs::rec_len() == pos);
    }
    kani::cover!(with_extra);
    std::mem::forget(a);
}
harness_sha!(c19_fingerprint_my_amount_l3, 40, { fingerprint_one_arg::<3>(73) });
harness_sha!(c19_fingerprint_assert_coin_ann_l32, 40, { fingerprint_one_arg::<32>(61) });
harness_sha!(c19t_fingerprint_seconds_relative_l0, 40, { fingerprint_one_arg::<0>(80) });

// signature and message conditions make a spend ineligible: the fingerprint refuses them
harness_sha!(c19_fingerprint_rejects_sig_and_msg, 40, {
    let mut a = Allocator::new();
    let x = a.new_atom(&[1, 2, 3]).unwrap();
    let args = a.new_pair(x, NodePtr::NIL).unwrap();
    let ops: [u8; 11] = [43, 44, 45, 46, 47, 48, 49, 50, 66, 67, 90];
    let k: usize = kani::any();
    kani::assume(k < 11);
    let opn = a.new_atom(&[ops[k]]).unwrap();
    let cond = a.new_pair(opn, args).unwrap();
    let list = a.new_pair(cond, NodePtr::NIL).unwrap();
    let r = compute_puzzle_fingerprint(&a, list);
    assert!(r.is_err());
    std::mem::forget(a);
});
