//! C19 — `fast_forward_singleton`: "anything that is not a genuine singleton spend of the stated
//! coin with matching lineage is refused" and "the rewritten solution differs from the original
//! only in lineage parent, parent amount and coin amount".
//!
//! The function itself runs no CLVM: it decodes the curried puzzle and the solution, checks a
//! chain of guards (amount parity, puzzle hashes, mod hash, lineage) and re-encodes the solution.
//! The harness builds a GENUINE scenario forwards -- puzzle `(a (q . MOD) (c (q . STRUCT)
//! (c (q . INNER) 1)))`, solution `((pp pih pamt) amt isol)`, the parent coin named by the lineage
//! proof, the coin, the new parent and the new coin, every hash computed with the hash function in
//! effect -- and then perturbs every field the guards look at by a symbolic delta. Asserted:
//! accepted <=> every delta is zero, the amounts are odd and the solution's amount is the coin's;
//! and the rewritten solution differs only in lineage parent, parent amount and coin amount.
//! Because the scenario is computed forwards, a counterexample replays natively with the real
//! SHA-256 and the real singleton puzzle (under Kani MOD is a stand-in atom that the digest model
//! maps to the singleton mod hash -- stubs::sha_finalize_ff).
use crate::c17::curried_by_hand;
use crate::h::*;
use crate::arm::is_native;
use crate::stubs;
use chia_consensus::fast_forward::fast_forward_singleton;
use chia_protocol::{Bytes32, Coin};
use chia_puzzles::SINGLETON_TOP_LAYER_V1_1_HASH;
use clvm_utils::{curry_tree_hash, tree_hash, tree_hash_atom, tree_hash_pair, TreeHash};
use clvmr::allocator::{Allocator, NodePtr, SExp};

fn sym_hash(fill: u8) -> [u8; 32] {
    let mut h = [fill; 32];
    h[0] = kani::any();
    h[31] = kani::any();
    h
}

fn list3(a: &mut Allocator, x: NodePtr, y: NodePtr, z: NodePtr) -> NodePtr {
    let t = a.new_pair(z, NodePtr::NIL).unwrap();
    let t = a.new_pair(y, t).unwrap();
    a.new_pair(x, t).unwrap()
}

fn first_rest(a: &Allocator, n: NodePtr) -> (NodePtr, NodePtr) {
    match a.sexp(n) {
        SExp::Pair(f, r) => (f, r),
        SExp::Atom => {
            assert!(false, "the rewritten solution keeps the list shape");
            (n, n)
        }
    }
}

fn atom_is(a: &Allocator, n: NodePtr, want: &[u8; 32]) -> bool {
    let at = a.atom(n);
    let b = at.as_ref();
    if b.len() != 32 {
        return false;
    }
    let mut i = 0;
    let mut eq = true;
    while i < 32 {
        eq &= b[i] == want[i];
        i += 1;
    }
    eq
}

/// the atom that stands for the singleton top layer program under Kani
pub const MOD_STAND_IN: &[u8] = b"singleton_top_layer_v1_1 (stand-in)";

fn xor2(h: &mut [u8; 32]) -> bool {
    let d0: u8 = kani::any();
    let d1: u8 = kani::any();
    h[0] ^= d0;
    h[31] ^= d1;
    d0 == 0 && d1 == 0
}

fn ff(la: usize) {
    let mut a = Allocator::new();
    // MOD: natively the real singleton top layer; under Kani a stand-in atom (or, symbolically,
    // some other atom)
    let genuine_mod: bool = kani::any();
    let modn = if !genuine_mod {
        a.new_atom(b"not the singleton top layer").unwrap()
    } else if is_native() {
        clvmr::serde::node_from_bytes(&mut a, &chia_puzzles::SINGLETON_TOP_LAYER_V1_1).unwrap()
    } else {
        a.new_atom(MOD_STAND_IN).unwrap()
    };
    // STRUCT = (mod_hash launcher_id . launcher_puzzle_hash)
    let mut mh: [u8; 32] = SINGLETON_TOP_LAYER_V1_1_HASH;
    let g_mh = xor2(&mut mh);
    let lid = sym_hash(0x44);
    let lph = [0x45u8; 32];
    let mhn = a.new_atom(&mh).unwrap();
    let lidn = a.new_atom(&lid).unwrap();
    let lphn = a.new_atom(&lph).unwrap();
    let t = a.new_pair(lidn, lphn).unwrap();
    let st = a.new_pair(mhn, t).unwrap();
    // INNER puzzle: a 3-byte atom
    let (inner, _ib) = sym_heap_atom::<3>(&mut a);
    let puzzle = curried_by_hand(&mut a, modn, &[st, inner]);
    // the genuine puzzle hash, from hashes alone (tree_hash = the definition: C17; curry_tree_hash
    // = tree hash of the curried program: C17) -- an allocator traversal per hash would cost
    // ~100 s of solver time per pair node
    let mod_th: [u8; 32] = if !genuine_mod {
        tree_hash_atom(b"not the singleton top layer").to_bytes()
    } else {
        SINGLETON_TOP_LAYER_V1_1_HASH
    };
    let st_th = tree_hash_pair(tree_hash_atom(&mh), tree_hash_pair(tree_hash_atom(&lid), tree_hash_atom(&lph)));
    let inner_th = tree_hash_atom(&_ib);
    let genuine_ph: [u8; 32] = curry_tree_hash(TreeHash::new(mod_th), &[st_th, inner_th]).to_bytes();
    // lineage: the parent coin is a singleton with the same struct and inner puzzle
    let pp = sym_hash(0x46);
    let mut pih: [u8; 32] = inner_th.to_bytes();
    let g_pih = xor2(&mut pih);
    let pamt_b: [u8; 2] = kani::any();
    let amt_b: [u8; 2] = kani::any();
    // canonical positive two-byte integers (bound of this harness)
    kani::assume(pamt_b[0] >= 1 && pamt_b[0] < 0x80 && amt_b[0] >= 1 && amt_b[0] < 0x80);
    let pamt = ((pamt_b[0] as u64) << 8) | pamt_b[1] as u64;
    let amt = ((amt_b[0] as u64) << 8) | amt_b[1] as u64;
    let parent_ph = curry_tree_hash(TreeHash::new(mh), &[st_th, TreeHash::new(pih)]);
    let parent = Coin { parent_coin_info: Bytes32::new(pp), puzzle_hash: Bytes32::new(parent_ph.to_bytes()), amount: pamt };
    let ppn = a.new_atom(&pp).unwrap();
    let pihn = a.new_atom(&pih).unwrap();
    let pamtn = a.new_atom(&pamt_b).unwrap();
    let amtn = a.new_atom(&amt_b).unwrap();
    let isol = a.new_atom(&[0x99, 0x98, 0x97]).unwrap();
    let lp = list3(&mut a, ppn, pihn, pamtn);
    let solution = list3(&mut a, lp, amtn, isol);
    // the coin being spent: child of `parent`, locked by the puzzle, amount symbolic
    let mut c_parent: [u8; 32] = parent.coin_id().to_bytes();
    let g_cpar = xor2(&mut c_parent);
    let mut c_ph = genuine_ph;
    let g_cph = xor2(&mut c_ph);
    let c_amt: u64 = kani::any();
    kani::assume(c_amt < (1 << 16));
    let coin = Coin { parent_coin_info: Bytes32::new(c_parent), puzzle_hash: Bytes32::new(c_ph), amount: c_amt };
    // the new parent: any coin locked by the same puzzle
    let mut np_ph = genuine_ph;
    let g_npph = xor2(&mut np_ph);
    let np_amt: u64 = kani::any();
    let new_parent = Coin { parent_coin_info: Bytes32::new(sym_hash(0x53)), puzzle_hash: Bytes32::new(np_ph), amount: np_amt };
    // the new coin: child of the new parent, same puzzle
    let mut nc_parent: [u8; 32] = new_parent.coin_id().to_bytes();
    let g_ncpar = xor2(&mut nc_parent);
    let mut nc_ph = genuine_ph;
    let g_ncph = xor2(&mut nc_ph);
    let nc_amt: u64 = kani::any();
    let new_coin = Coin { parent_coin_info: Bytes32::new(nc_parent), puzzle_hash: Bytes32::new(nc_ph), amount: nc_amt };
    // bound: the two amounts written into the new solution fit a NodePtr-embedded integer
    // (la = 0), or are three-byte-plus heap integers (la = 1)
    if la == 0 {
        kani::assume(np_amt < (1 << 26) && nc_amt < (1 << 26));
    } else {
        kani::assume(np_amt >= (1 << 26) && np_amt < (1 << 31) && nc_amt >= (1 << 26) && nc_amt < (1 << 31));
    }

    let r = fast_forward_singleton(&mut a, puzzle, solution, &coin, &new_coin, &new_parent);

    let genuine = genuine_mod
        && g_mh
        && g_pih
        && g_cpar
        && g_cph
        && g_npph
        && g_ncpar
        && g_ncph
        && c_amt & 1 == 1
        && np_amt & 1 == 1
        && nc_amt & 1 == 1
        && amt == c_amt;
    match r {
        Ok(ns) => {
            assert!(genuine_mod && g_mh, "refused unless the puzzle is the singleton top layer, curried with its own mod hash");
            assert!(c_amt & 1 == 1 && np_amt & 1 == 1 && nc_amt & 1 == 1, "refused unless all three amounts are odd");
            assert!(g_cph, "refused unless the spent coin is locked by the revealed puzzle");
            assert!(g_npph, "refused unless the new parent is locked by the same puzzle");
            assert!(g_ncph, "refused unless the new coin is locked by the same puzzle");
            assert!(g_ncpar, "refused unless the new coin is a child of the stated new parent");
            assert!(amt == c_amt, "refused unless the solution's amount is the spent coin's amount");
            assert!(g_pih, "refused unless the lineage proof names this inner puzzle");
            assert!(g_cpar, "refused unless the coin's parent is the singleton named by the lineage proof");
            // the rewritten solution: ((new_parent.parent pih new_parent.amount) new_coin.amount isol)
            let (lp2, rest) = first_rest(&a, ns);
            let (amt2, rest) = first_rest(&a, rest);
            let (isol2, tail) = first_rest(&a, rest);
            assert!(tail == NodePtr::NIL && isol2 == isol, "inner solution untouched");
            let (pp2, rest) = first_rest(&a, lp2);
            let (pih2, rest) = first_rest(&a, rest);
            let (pamt2, tail) = first_rest(&a, rest);
            assert!(tail == NodePtr::NIL);
            assert!(atom_is(&a, pp2, &new_parent.parent_coin_info.to_bytes()), "lineage parent := the new parent's parent");
            assert!(atom_is(&a, pih2, &pih), "lineage inner puzzle hash untouched");
            if la == 0 {
                assert!(a.small_number(amt2) == Some(nc_amt as u32), "amount := the new coin's amount");
                assert!(a.small_number(pamt2) == Some(np_amt as u32), "lineage amount := the new parent's amount");
            } else {
                assert!(be_value(a.atom(amt2).as_ref()) == nc_amt as u128 && a.atom_len(amt2) == 4);
                assert!(be_value(a.atom(pamt2).as_ref()) == np_amt as u128 && a.atom_len(pamt2) == 4);
            }
            kani::cover!(true, "a genuine fast-forward is accepted");
        }
        Err(_) => {
            assert!(!genuine, "a genuine singleton spend with matching lineage is fast-forwarded");
            kani::cover!(!g_ncph && genuine_mod && g_mh && g_pih && g_cpar && g_cph && g_npph && g_ncpar, "only the new coin's puzzle hash is foreign");
        }
    }
    std::mem::forget(a);
}

/// tree-hash harness whose digest model also maps the stand-in MOD atom to the singleton mod hash
macro_rules! ff_harness {
    ($name:ident, $unwind:expr, $body:block) => {
        #[kani::proof]
        #[kani::unwind($unwind)]
        #[kani::stub(std::hash::RandomState::new, $crate::stubs::fixed_keys)]
        #[kani::stub(std::vec::Vec::reserve, $crate::stubs::reserve_stub)]
        #[kani::stub(chia_sha2::Sha256::new, $crate::stubs::sha_new)]
        #[kani::stub(chia_sha2::Sha256::update, $crate::stubs::sha_update)]
        #[kani::stub(chia_sha2::Sha256::finalize, $crate::stubs::sha_finalize_ff)]
        #[kani::stub($crate::arm::is_native, $crate::arm::is_native_no)]
        fn $name() $body
    };
}
// not registered (c19x_): no verdict within 30 min / 8 GB
ff_harness!(c19x_ff_genuine_iff_accepted, 120, { ff(0) });
ff_harness!(c19x_ff_genuine_iff_accepted_big_amounts, 120, { ff(1) }); // not registered: never finished
