//! Harness helpers and the harness-declaring macros.
use clvmr::allocator::{Allocator, NodePtr};

/// Declares a Kani proof harness with the standard allocator stubs (S1, S2).
#[macro_export]
macro_rules! harness {
    ($name:ident, $unwind:expr, $body:block) => {
        #[kani::proof]
        #[kani::unwind($unwind)]
        #[kani::stub(std::hash::RandomState::new, $crate::stubs::fixed_keys)]
        #[kani::stub(std::vec::Vec::reserve, $crate::stubs::reserve_stub)]
        fn $name() $body
    };
}

/// Same, plus the SHA-256 recorder (S3).
#[macro_export]
macro_rules! harness_sha {
    ($name:ident, $unwind:expr, $body:block) => {
        #[kani::proof]
        #[kani::unwind($unwind)]
        #[kani::stub(std::hash::RandomState::new, $crate::stubs::fixed_keys)]
        #[kani::stub(std::vec::Vec::reserve, $crate::stubs::reserve_stub)]
        #[kani::stub(chia_sha2::Sha256::new, $crate::stubs::sha_new)]
        #[kani::stub(chia_sha2::Sha256::update, $crate::stubs::sha_update)]
        #[kani::stub(chia_sha2::Sha256::finalize, $crate::stubs::sha_finalize)]
        fn $name() $body
    };
}

/// An atom of exactly L bytes with symbolic content.
pub fn sym_atom<const L: usize>(a: &mut Allocator) -> (NodePtr, [u8; L]) {
    let buf: [u8; L] = kani::any();
    (a.new_atom(&buf).unwrap(), buf)
}

pub fn atom_of(a: &mut Allocator, b: &[u8]) -> NodePtr {
    a.new_atom(b).unwrap()
}

/// big-endian value of a byte slice of at most 16 bytes
pub fn be_value(b: &[u8]) -> u128 {
    let mut v: u128 = 0;
    let mut i = 0;
    while i < b.len() {
        v = (v << 8) | b[i] as u128;
        i += 1;
    }
    v
}

/// Harness around the real `parse_conditions` with `parse_args` stubbed by `$stub`
/// (see arm.rs).
#[macro_export]
macro_rules! arm_harness {
    ($name:ident, $stub:path, $unwind:expr, $body:block) => {
        #[kani::proof]
        #[kani::unwind($unwind)]
        #[kani::stub(std::hash::RandomState::new, $crate::stubs::fixed_keys)]
        #[kani::stub(std::vec::Vec::reserve, $crate::stubs::reserve_stub)]
        #[kani::stub(chia_consensus::conditions::parse_args, $stub)]
        #[kani::stub($crate::arm::is_native, $crate::arm::is_native_no)]
        fn $name() $body
    };
}

/// A heap-backed atom of exactly L bytes with symbolic content and *constant* length,
/// for L < 5 as well (clvmr stores canonical small integers inside the NodePtr and derives
/// their length from the value, which CBMC sees as a symbolic length). Built the way the
/// `substr` operator builds atoms: a view into a larger heap atom.
pub fn sym_heap_atom<const L: usize>(a: &mut Allocator) -> (NodePtr, [u8; L]) {
    let buf: [u8; L] = kani::any();
    let mut big = [0xffu8; 48];
    assert!(L + 2 <= 48);
    let mut i = 0;
    while i < L {
        big[1 + i] = buf[i];
        i += 1;
    }
    let base = a.new_atom(&big[..L + 2]).unwrap();
    let n = a.new_substr(base, 1, 1 + L as u32).unwrap();
    (n, buf)
}

/// arm harness with the BLS model (S4) on top of the parse_args stub
#[macro_export]
macro_rules! sig_harness {
    ($name:ident, $stub:path, $unwind:expr, $body:block) => {
        #[kani::proof]
        #[kani::unwind($unwind)]
        #[kani::stub(std::hash::RandomState::new, $crate::stubs::fixed_keys)]
        #[kani::stub(std::vec::Vec::reserve, $crate::stubs::reserve_stub)]
        #[kani::stub(chia_consensus::conditions::parse_args, $stub)]
        #[kani::stub($crate::arm::is_native, $crate::arm::is_native_no)]
        #[kani::stub(chia_consensus::conditions::PublicKey::from_bytes, $crate::stubs::pk_from_bytes_stub)]
        #[kani::stub(chia_consensus::conditions::PublicKey::from_bytes_unchecked, $crate::stubs::pk_from_bytes_unchecked_stub)]
        #[kani::stub(chia_consensus::conditions::PublicKey::is_inf, $crate::stubs::pk_is_inf_stub)]
        #[kani::stub(chia_consensus::conditions::PublicKey::to_bytes, $crate::stubs::pk_to_bytes_stub)]
        fn $name() $body
    };
}

/// streamable harness: SHA recorder + BLS token model + proof-of-space quality model
#[macro_export]
macro_rules! wire_harness {
    ($name:ident, $unwind:expr, $body:block) => {
        #[kani::proof]
        #[kani::unwind($unwind)]
        #[kani::stub(std::hash::RandomState::new, $crate::stubs::fixed_keys)]
        #[kani::stub(chia_sha2::Sha256::new, $crate::stubs::sha_new)]
        #[kani::stub(chia_sha2::Sha256::update, $crate::stubs::sha_update)]
        #[kani::stub(chia_sha2::Sha256::finalize, $crate::stubs::sha_finalize)]
        #[kani::stub(chia_consensus::conditions::PublicKey::from_bytes, $crate::stubs::pk_from_bytes_stub)]
        #[kani::stub(chia_consensus::conditions::PublicKey::from_bytes_unchecked, $crate::stubs::pk_from_bytes_unchecked_stub)]
        #[kani::stub(chia_consensus::conditions::PublicKey::to_bytes, $crate::stubs::pk_to_bytes_stub)]
        #[kani::stub(chia_protocol::ProofOfSpace::quality_string, $crate::stubs::pos_quality_stub)]
        #[kani::stub(std::fmt::format, $crate::stubs::fmt_stub)]
        fn $name() $body
    };
}

/// tree-hash harness: allocator stubs + SHA recorder with the precomputed-table-aware digest
#[macro_export]
macro_rules! th_harness {
    ($name:ident, $unwind:expr, $body:block) => {
        #[kani::proof]
        #[kani::unwind($unwind)]
        #[kani::stub(std::hash::RandomState::new, $crate::stubs::fixed_keys)]
        #[kani::stub(std::vec::Vec::reserve, $crate::stubs::reserve_stub)]
        #[kani::stub(chia_sha2::Sha256::new, $crate::stubs::sha_new)]
        #[kani::stub(chia_sha2::Sha256::update, $crate::stubs::sha_update)]
        #[kani::stub(chia_sha2::Sha256::finalize, $crate::stubs::sha_finalize_precomputed)]
        fn $name() $body
    };
}

/// allocator stubs + S7 (capacity hints dropped)
#[macro_export]
macro_rules! harness_nocap {
    ($name:ident, $unwind:expr, $body:block) => {
        #[kani::proof]
        #[kani::unwind($unwind)]
        #[kani::stub(std::hash::RandomState::new, $crate::stubs::fixed_keys)]
        #[kani::stub(std::vec::Vec::reserve, $crate::stubs::reserve_stub)]
        #[kani::stub(std::vec::Vec::with_capacity, $crate::stubs::with_capacity_none)]
        fn $name() $body
    };
}
