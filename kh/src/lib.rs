//! Kani harness crate for chia_rs (see /verif/DESIGN.md).
//! Every harness runs the real functions from /repo/crates/* (path dependencies,
//! rebuilt from the working tree on every run).
#![cfg_attr(kani, feature(allocator_api))]
#![allow(clippy::all)]
#![allow(dead_code)]
#![allow(unused_imports)]
#![allow(unused_variables)]
#![allow(static_mut_refs)]
#![allow(unsafe_op_in_unsafe_fn)]

pub mod spec;

/// Native replay only (`cargo kani playback` builds the crate as a test): a counting global
/// allocator, so that harnesses about pre-allocation (C14) observe the largest single request
/// natively, where the `Vec::with_capacity` probe stub is not in effect.
#[cfg(test)]
pub mod native_alloc {
    use std::alloc::{GlobalAlloc, Layout, System};
    use std::sync::atomic::{AtomicUsize, Ordering};
    pub static MAX_SINGLE: AtomicUsize = AtomicUsize::new(0);
    pub struct Counting;
    unsafe impl GlobalAlloc for Counting {
        unsafe fn alloc(&self, l: Layout) -> *mut u8 {
            MAX_SINGLE.fetch_max(l.size(), Ordering::Relaxed);
            System.alloc(l)
        }
        unsafe fn dealloc(&self, p: *mut u8, l: Layout) {
            System.dealloc(p, l)
        }
        unsafe fn realloc(&self, p: *mut u8, l: Layout, n: usize) -> *mut u8 {
            MAX_SINGLE.fetch_max(n, Ordering::Relaxed);
            System.realloc(p, l, n)
        }
    }
    #[global_allocator]
    static GLOBAL: Counting = Counting;
}
#[cfg(kani)]
pub mod stubs;
#[cfg(kani)]
#[macro_use]
pub mod h;

#[cfg(kani)]
pub mod c11;
#[cfg(kani)]
pub mod arm;
#[cfg(kani)]
mod arms;
#[cfg(kani)]
pub mod c01;
#[cfg(kani)]
mod c01m;
#[cfg(kani)]
mod c01v;
#[cfg(kani)]
mod c02;
#[cfg(kani)]
mod c03;
#[cfg(kani)]
mod c04;
#[cfg(kani)]
mod c05;
#[cfg(kani)]
mod c06;
#[cfg(kani)]
mod c12;
#[cfg(kani)]
mod c13;
#[cfg(kani)]
pub mod c17;
#[cfg(kani)]
mod c19;
#[cfg(kani)]
pub mod c19f;
#[cfg(kani)]
mod cost_table;
