//! Kani harness crate for chia_rs (see /verif/DESIGN.md).
//! Every harness runs the real functions from /repo/crates/* (path dependencies,
//! rebuilt from the working tree on every run).
#![cfg_attr(kani, feature(allocator_api))]
#![allow(clippy::all)]
#![allow(dead_code)]
#![allow(unused_imports)]
#![allow(unused_variables)]
#![allow(static_mut_refs)]
#![allow(unsafe_op_in_unsafe_fn)]

pub mod spec;
#[cfg(kani)]
pub mod stubs;
#[cfg(kani)]
#[macro_use]
pub mod h;

#[cfg(kani)]
pub mod c11;
#[cfg(kani)]
pub mod arm;
#[cfg(kani)]
mod arms;
#[cfg(kani)]
pub mod c01;
#[cfg(kani)]
mod c01m;
#[cfg(kani)]
mod c01v;
#[cfg(kani)]
mod c02;
#[cfg(kani)]
mod c03;
#[cfg(kani)]
mod c04;
#[cfg(kani)]
mod c05;
#[cfg(kani)]
mod c06;
#[cfg(kani)]
mod c12;
#[cfg(kani)]
mod c13;
#[cfg(kani)]
pub mod c17;
#[cfg(kani)]
mod c19;
#[cfg(kani)]
pub mod c19f;
#[cfg(kani)]
mod cost_table;
