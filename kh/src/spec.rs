//! Reference models (oracles). Written from the documented rules, independent of the
//! implementation's control flow. Kept deliberately simple: fixed-size buffers,
//! no heap.

/// Canonical CLVM encoding of an unsigned 64-bit integer: minimal big-endian
/// two's complement (positive, so a leading 0x00 is present iff the top bit of the
/// first magnitude byte is set; zero is the empty atom).
/// Returns (buffer, len) with the encoding in buf[..len].
pub fn canon_u64(v: u64) -> ([u8; 9], usize) {
    let mut full = [0u8; 9];
    let be = v.to_be_bytes();
    let mut i = 0;
    while i < 8 {
        full[i + 1] = be[i];
        i += 1;
    }
    // number of leading bytes that can be stripped: strip a 0x00 byte while the
    // following byte has its top bit clear (or there is no following byte).
    let mut start = 0usize;
    while start < 9 {
        if full[start] != 0 {
            break;
        }
        if start + 1 < 9 && (full[start + 1] & 0x80) != 0 {
            break;
        }
        start += 1;
    }
    let len = 9 - start;
    let mut out = [0u8; 9];
    let mut j = 0;
    while j < len {
        out[j] = full[start + j];
        j += 1;
    }
    (out, len)
}

/// Independent closed form of the canonical length (for cross-checking canon_u64).
pub fn canon_len_u64(v: u64) -> usize {
    if v == 0 {
        0
    } else {
        let bits = 64 - v.leading_zeros() as usize; // 1..=64
        bits / 8 + 1
    }
}
