//! Models replacing code Kani cannot execute (DESIGN.md §3). Every stub used by a
//! harness is listed in that harness's evidence.
use chia_sha2::Sha256;

/// S2: capacity hints used by clvmr::Allocator::new_limited are shrunk.
pub fn reserve_stub<T, A: std::alloc::Allocator>(v: &mut Vec<T, A>, additional: usize) {
    v.reserve_exact(if additional == 256 || additional == 1024 * 1024 {
        8
    } else {
        additional
    })
}

/// S1: RandomState::new performs a getrandom syscall.
pub fn fixed_keys() -> std::hash::RandomState {
    unsafe { std::mem::transmute::<(u64, u64), std::hash::RandomState>((0, 0)) }
}

// ---------------------------------------------------------------------------
// S3: SHA-256 recorder. `update` appends to a ghost buffer, `finalize` returns a
// cheap deterministic digest of the buffer and leaves the buffer inspectable
// (REC[..REC_LEN]) until the next `Sha256::new()`. One hasher alive at a time.
pub const REC_CAP: usize = 192;
pub static mut REC: [u8; REC_CAP] = [0; REC_CAP];
pub static mut REC_LEN: usize = 0;
/// number of finalize() calls so far
pub static mut REC_FINALIZED: usize = 0;
/// number of new() calls so far
pub static mut REC_NEW: usize = 0;

pub fn sha_new() -> Sha256 {
    unsafe {
        REC_LEN = 0;
        REC_NEW += 1;
        std::mem::zeroed()
    }
}

pub fn sha_update<T: AsRef<[u8]>>(_s: &mut Sha256, buf: T) {
    let b = buf.as_ref();
    let mut i = 0;
    while i < b.len() {
        unsafe {
            if REC_LEN < REC_CAP {
                REC[REC_LEN] = b[i];
            }
            REC_LEN += 1;
        }
        i += 1;
    }
}

/// digest model: position-dependent fold of the recorded bytes into 32 bytes.
pub fn model_digest(buf: &[u8], len: usize) -> [u8; 32] {
    let mut r = [0u8; 32];
    let mut i = 0;
    while i < len {
        r[i % 32] = r[i % 32]
            .rotate_left(3)
            .wrapping_add(buf[i])
            .wrapping_add((i / 32) as u8);
        i += 1;
    }
    r[31] ^= len as u8;
    r
}

pub fn sha_finalize(_s: Sha256) -> [u8; 32] {
    unsafe {
        REC_FINALIZED += 1;
        let n = if REC_LEN < REC_CAP { REC_LEN } else { REC_CAP };
        model_digest(&REC, n)
    }
}

pub fn rec_len() -> usize {
    unsafe { REC_LEN }
}
pub fn rec(i: usize) -> u8 {
    unsafe { REC[i] }
}

/// S5: formatting is never the subject.
pub fn fmt_stub(_args: std::fmt::Arguments<'_>) -> String {
    String::new()
}

/// true iff the SHA recorder is in effect (false under native playback, where the real
/// SHA-256 runs and recorder-based assertions are skipped)
pub fn active() -> bool {
    unsafe { REC_NEW > 0 }
}
