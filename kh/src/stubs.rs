//! Models replacing code Kani cannot execute (DESIGN.md §3). Every stub used by a
//! harness is listed in that harness's evidence.
use chia_sha2::Sha256;

/// S2: capacity hints used by clvmr::Allocator::new_limited are shrunk.
pub fn reserve_stub<T, A: std::alloc::Allocator>(v: &mut Vec<T, A>, additional: usize) {
    v.reserve_exact(if additional == 256 || additional == 1024 * 1024 {
        8
    } else {
        additional
    })
}

/// S1: RandomState::new performs a getrandom syscall.
pub fn fixed_keys() -> std::hash::RandomState {
    unsafe { std::mem::transmute::<(u64, u64), std::hash::RandomState>((0, 0)) }
}

// ---------------------------------------------------------------------------
// S3: SHA-256 recorder. `update` appends to a ghost buffer, `finalize` returns a
// cheap deterministic digest of the buffer and leaves the buffer inspectable
// (crate::stubs::G.rec[..REC_LEN]) until the next `Sha256::new()`. One hasher alive at a time.
pub const REC_CAP: usize = 192;

/// All mutable harness state lives in ONE static with a unique initializer.
/// Reason (measured, Kani 0.68): a `static mut X: usize = 0` shared its storage with the
/// constant `alloc::raw_vec::ZERO_CAP` -- after `X = 3`, `Vec::new().capacity()` was 3 and
/// every drop of an empty Vec "freed" a dangling pointer. Separate zero-initialised
/// scalars are therefore not safe to use as ghost state; one struct whose initial bytes
/// occur nowhere else is.
pub struct Globals {
    pub magic: [u8; 16],
    // SHA recorder
    pub rec: [u8; REC_CAP],
    pub rec_len: usize,
    /// number of finalize() calls so far
    pub rec_finalized: usize,
    /// number of new() calls so far
    pub rec_new: usize,
    // payload registers read by the parse_args stubs / the concretizing visitor
    pub p_n1: clvmr::allocator::NodePtr,
    pub p_n2: clvmr::allocator::NodePtr,
    pub p_n3: clvmr::allocator::NodePtr,
    pub p_u64: u64,
    pub p_u32: u32,
    pub p_u8: u8,
    pub p_sid: u8,
    pub q_n1: clvmr::allocator::NodePtr,
    pub q_u64: u64,
    pub q_u32: u32,
    pub pa_calls: u32,
    pub exp_kind: u8,
    pub cv_calls: u32,
    // BLS model
    pub bls_valid_mask: u8,
    pub bls_verdict: bool,
    pub bls_calls: u32,
}

pub static mut G: Globals = Globals {
    magic: *b"/verif/kh-global",
    rec: [0; REC_CAP],
    rec_len: 0,
    rec_finalized: 0,
    rec_new: 0,
    p_n1: clvmr::allocator::NodePtr::NIL,
    p_n2: clvmr::allocator::NodePtr::NIL,
    p_n3: clvmr::allocator::NodePtr::NIL,
    p_u64: 0,
    p_u32: 0,
    p_u8: 0,
    p_sid: 0,
    q_n1: clvmr::allocator::NodePtr::NIL,
    q_u64: 0,
    q_u32: 0,
    pa_calls: 0,
    exp_kind: 0,
    cv_calls: 0,
    bls_valid_mask: 0,
    bls_verdict: false,
    bls_calls: 0,
};

pub fn sha_new() -> Sha256 {
    unsafe {
        G.rec = [0; REC_CAP];
        G.rec_len = 0;
        G.rec_new += 1;
        std::mem::zeroed()
    }
}

pub fn sha_update<T: AsRef<[u8]>>(_s: &mut Sha256, buf: T) {
    let b = buf.as_ref();
    let mut i = 0;
    while i < b.len() {
        unsafe {
            if G.rec_len < REC_CAP {
                G.rec[G.rec_len] = b[i];
            }
            G.rec_len += 1;
        }
        i += 1;
    }
}

/// digest model: the recorded stream (zero-padded to REC_CAP) folded in 32-byte blocks,
/// block k offset by k, and the length mixed into the last byte. All loops have constant
/// bounds (32 and 6), so harnesses need no more than unwind 34 for it.
pub fn model_digest(buf: &[u8; REC_CAP], len: usize) -> [u8; 32] {
    let mut r = [0u8; 32];
    let mut k = 0;
    while k < REC_CAP / 32 {
        let mut i = 0;
        while i < 32 {
            let pos = 32 * k + i;
            if pos < len {
                r[i] ^= buf[pos].wrapping_add(k as u8);
            }
            i += 1;
        }
        k += 1;
    }
    r[31] ^= len as u8;
    r
}

pub fn sha_finalize(_s: Sha256) -> [u8; 32] {
    unsafe {
        G.rec_finalized += 1;
        let n = if G.rec_len < REC_CAP { G.rec_len } else { REC_CAP };
        model_digest(&G.rec, n)
    }
}

pub fn rec_len() -> usize {
    unsafe { crate::stubs::G.rec_len }
}
pub fn rec(i: usize) -> u8 {
    unsafe { crate::stubs::G.rec[i] }
}

/// S5: formatting is never the subject.
pub fn fmt_stub(_args: std::fmt::Arguments<'_>) -> String {
    String::new()
}

/// true iff the SHA recorder is in effect (false under native playback, where the real
/// SHA-256 runs and recorder-based assertions are skipped)
pub fn active() -> bool {
    unsafe { crate::stubs::G.rec_new > 0 }
}
