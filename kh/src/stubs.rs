//! Models replacing code Kani cannot execute (DESIGN.md §3). Every stub used by a
//! harness is listed in that harness's evidence.
use chia_sha2::Sha256;

/// S2: capacity hints used by clvmr::Allocator::new_limited are shrunk.
pub fn reserve_stub<T, A: std::alloc::Allocator>(v: &mut Vec<T, A>, additional: usize) {
    v.reserve_exact(if additional == 256 || additional == 1024 * 1024 {
        8
    } else {
        additional
    })
}

/// S1: RandomState::new performs a getrandom syscall.
pub fn fixed_keys() -> std::hash::RandomState {
    unsafe { std::mem::transmute::<(u64, u64), std::hash::RandomState>((0, 0)) }
}

// ---------------------------------------------------------------------------
// S3: SHA-256 recorder. `update` appends to a ghost buffer, `finalize` returns a
// cheap deterministic digest of the buffer and leaves the buffer inspectable
// (crate::stubs::G.rec[..REC_LEN]) until the next `Sha256::new()`. One hasher alive at a time.
pub const REC_CAP: usize = 192;

/// All mutable harness state lives in ONE static with a unique initializer.
/// Reason (measured, Kani 0.68): a `static mut X: usize = 0` shared its storage with the
/// constant `alloc::raw_vec::ZERO_CAP` -- after `X = 3`, `Vec::new().capacity()` was 3 and
/// every drop of an empty Vec "freed" a dangling pointer. Separate zero-initialised
/// scalars are therefore not safe to use as ghost state; one struct whose initial bytes
/// occur nowhere else is.
pub struct Globals {
    pub magic: [u8; 16],
    // SHA recorder
    pub rec: [u8; REC_CAP],
    pub rec_len: usize,
    /// number of finalize() calls so far
    pub rec_finalized: usize,
    /// number of new() calls so far
    pub rec_new: usize,
    // payload registers read by the parse_args stubs / the concretizing visitor
    pub p_n1: clvmr::allocator::NodePtr,
    pub p_n2: clvmr::allocator::NodePtr,
    pub p_n3: clvmr::allocator::NodePtr,
    pub p_u64: u64,
    pub p_u32: u32,
    pub p_u8: u8,
    pub p_sid: u8,
    pub q_n1: clvmr::allocator::NodePtr,
    pub q_u64: u64,
    pub q_u32: u32,
    pub pa_calls: u32,
    pub exp_kind: u8,
    pub cv_calls: u32,
    // BLS model
    pub bls_valid_mask: u8,
    pub bls_verdict: bool,
    pub bls_calls: u32,
    // S6: proof-of-space quality model
    pub pos_quality_some: bool,
    pub cap_seen: usize,
}

pub static mut G: Globals = Globals {
    magic: *b"/verif/kh-global",
    rec: [0; REC_CAP],
    rec_len: 0,
    rec_finalized: 0,
    rec_new: 0,
    p_n1: clvmr::allocator::NodePtr::NIL,
    p_n2: clvmr::allocator::NodePtr::NIL,
    p_n3: clvmr::allocator::NodePtr::NIL,
    p_u64: 0,
    p_u32: 0,
    p_u8: 0,
    p_sid: 0,
    q_n1: clvmr::allocator::NodePtr::NIL,
    q_u64: 0,
    q_u32: 0,
    pa_calls: 0,
    exp_kind: 0,
    cv_calls: 0,
    bls_valid_mask: 0,
    bls_verdict: false,
    bls_calls: 0,
    pos_quality_some: false,
    cap_seen: 0,
};

pub fn sha_new() -> Sha256 {
    unsafe {
        G.rec = [0; REC_CAP];
        G.rec_len = 0;
        G.rec_new += 1;
        std::mem::zeroed()
    }
}

pub fn sha_update<T: AsRef<[u8]>>(_s: &mut Sha256, buf: T) {
    let b = buf.as_ref();
    let mut i = 0;
    while i < b.len() {
        unsafe {
            if G.rec_len < REC_CAP {
                G.rec[G.rec_len] = b[i];
            }
            G.rec_len += 1;
        }
        i += 1;
    }
}

/// digest model: the recorded stream (zero-padded to REC_CAP) folded in 32-byte blocks,
/// block k offset by k, and the length mixed into the last byte. All loops have constant
/// bounds (32 and 6), so harnesses need no more than unwind 34 for it.
pub fn model_digest(buf: &[u8; REC_CAP], len: usize) -> [u8; 32] {
    let mut r = [0u8; 32];
    let mut k = 0;
    while k < REC_CAP / 32 {
        let mut i = 0;
        while i < 32 {
            let pos = 32 * k + i;
            if pos < len {
                r[i] ^= buf[pos].wrapping_add(k as u8);
            }
            i += 1;
        }
        k += 1;
    }
    r[31] ^= len as u8;
    r
}

pub fn sha_finalize(_s: Sha256) -> [u8; 32] {
    unsafe {
        G.rec_finalized += 1;
        let n = if G.rec_len < REC_CAP { G.rec_len } else { REC_CAP };
        model_digest(&G.rec, n)
    }
}

pub fn rec_len() -> usize {
    unsafe { crate::stubs::G.rec_len }
}
pub fn rec(i: usize) -> u8 {
    unsafe { crate::stubs::G.rec[i] }
}

/// S5: formatting is never the subject.
pub fn fmt_stub(_args: std::fmt::Arguments<'_>) -> String {
    String::new()
}

/// true iff the SHA recorder is in effect (false under native playback, where the real
/// SHA-256 runs and recorder-based assertions are skipped)
pub fn active() -> bool {
    unsafe { crate::stubs::G.rec_new > 0 }
}

// ---------------------------------------------------------------------------
// S4: BLS points as opaque tokens (blst is C/assembly behind FFI).
// A key is its 48 bytes stashed in the blst_p1 storage; byte 0 decides the two
// predicates of the FFI contract: 0xEE.. = not a valid point, 0xC0.. = the point at
// infinity (valid), K_OFF_SUBGROUP = on the curve but outside G1 (rejected by the checked
// decoder only), anything else = a valid non-infinity point.
pub const PK_SIZE: usize = std::mem::size_of::<chia_bls::PublicKey>();

pub fn pk_token(bytes: &[u8; 48]) -> chia_bls::PublicKey {
    let mut raw = [0u8; PK_SIZE];
    let mut i = 0;
    while i < 48 {
        raw[i] = bytes[i];
        i += 1;
    }
    unsafe { std::mem::transmute::<[u8; PK_SIZE], chia_bls::PublicKey>(raw) }
}

pub fn pk_bytes(pk: &chia_bls::PublicKey) -> [u8; 48] {
    let raw = unsafe { std::mem::transmute::<chia_bls::PublicKey, [u8; PK_SIZE]>(*pk) };
    let mut out = [0u8; 48];
    let mut i = 0;
    while i < 48 {
        out[i] = raw[i];
        i += 1;
    }
    out
}

/// A real point of E(Fp) outside the prime-order subgroup (found by search, checked natively:
/// `PublicKey::from_bytes` rejects it, `from_bytes_unchecked` accepts it, it is not infinity).
/// The model's "on the curve but not in G1" class has exactly this one member, so that a
/// counterexample built from it replays natively against the real blst.
pub const K_OFF_SUBGROUP: [u8; 48] = {
    let mut k = [0x11u8; 48];
    k[0] = 0x80;
    k[47] = 0xff;
    k
};

pub fn pk_is_off_subgroup(bytes: &[u8; 48]) -> bool {
    let mut eq = true;
    let mut i = 0;
    while i < 48 {
        eq &= bytes[i] == K_OFF_SUBGROUP[i];
        i += 1;
    }
    eq
}

pub fn pk_from_bytes_stub(bytes: &[u8; 48]) -> chia_bls::Result<chia_bls::PublicKey> {
    if bytes[0] == 0xEE || pk_is_off_subgroup(bytes) {
        Err(chia_bls::Error::G1NotCanonical)
    } else {
        Ok(pk_token(bytes))
    }
}

pub fn pk_is_inf_stub(pk: &chia_bls::PublicKey) -> bool {
    pk_bytes(pk)[0] == 0xC0
}

pub fn pk_to_bytes_stub(pk: &chia_bls::PublicKey) -> [u8; 48] {
    pk_bytes(pk)
}

/// what the verifier was handed: up to VER_MAX pairs of (key bytes, message)
pub const VER_MAX: usize = 2;
pub const VER_MSG_CAP: usize = 112;
pub struct VerifierLog {
    pub magic: [u8; 16],
    pub n: usize,
    pub key: [[u8; 48]; VER_MAX],
    pub msg: [[u8; VER_MSG_CAP]; VER_MAX],
    pub msg_len: [usize; VER_MAX],
    pub cached_path: bool,
}
pub static mut VLOG: VerifierLog = VerifierLog {
    magic: *b"/verif/kh-bls-vl",
    n: 0,
    key: [[0; 48]; VER_MAX],
    msg: [[0; VER_MSG_CAP]; VER_MAX],
    msg_len: [0; VER_MAX],
    cached_path: false,
};

unsafe fn vlog_push(pk: &chia_bls::PublicKey, m: &[u8]) {
    if VLOG.n < VER_MAX {
        let k = VLOG.n;
        VLOG.key[k] = pk_bytes(pk);
        let mut i = 0;
        while i < m.len() {
            if i < VER_MSG_CAP {
                VLOG.msg[k][i] = m[i];
            }
            i += 1;
        }
        VLOG.msg_len[k] = m.len();
    }
    VLOG.n += 1;
}

pub fn aggregate_verify_stub<Pk: std::borrow::Borrow<chia_bls::PublicKey>, Msg: std::borrow::Borrow<[u8]>, I>(
    _sig: &chia_bls::Signature,
    data: I,
) -> bool
where
    I: IntoIterator<Item = (Pk, Msg)>,
{
    unsafe {
        VLOG.cached_path = false;
        for (pk, m) in data {
            vlog_push(pk.borrow(), m.borrow());
        }
        G.bls_calls += 1;
        G.bls_verdict
    }
}

pub fn cache_aggregate_verify_stub<Pk: std::borrow::Borrow<chia_bls::PublicKey>, Msg: AsRef<[u8]>>(
    _this: &chia_bls::BlsCache,
    pks_msgs: impl IntoIterator<Item = (Pk, Msg)>,
    _sig: &chia_bls::Signature,
) -> bool {
    unsafe {
        VLOG.cached_path = true;
        for (pk, m) in pks_msgs {
            vlog_push(pk.borrow(), m.as_ref());
        }
        G.bls_calls += 1;
        G.bls_verdict
    }
}

/// S4 (trusted decoding): same token model, unchecked variant accepts a superset
pub fn pk_from_bytes_unchecked_stub(bytes: &[u8; 48]) -> chia_bls::Result<chia_bls::PublicKey> {
    // 0xEE.. = not the encoding of a curve point (rejected by both decoders); the subgroup
    // check is what the unchecked decoder skips
    if bytes[0] == 0xEE {
        Err(chia_bls::Error::G1NotCanonical)
    } else {
        Ok(pk_token(bytes))
    }
}

/// S6: chia_pos2 proof validation is out of reach; its contract is "None when the proof
/// does not validate". Nondeterministic per harness.
pub fn pos_quality_stub(_p: &chia_protocol::ProofOfSpace) -> Option<chia_protocol::Bytes32> {
    if unsafe { G.pos_quality_some } {
        Some(chia_protocol::Bytes32::new([0x51; 32]))
    } else {
        None
    }
}

pub fn pk_eq_stub(a: &chia_bls::PublicKey, b: &chia_bls::PublicKey) -> bool {
    pk_bytes(a) == pk_bytes(b)
}

/// S3 for the tree-hash harnesses: like `sha_finalize`, but on the 24 preimages
/// 0x01 and 0x01 i (i = 1..23) it returns the constants baked into
/// clvm_utils::tree_hash::PRECOMPUTED_HASHES, as the real SHA-256 does (that the table
/// holds the real digests is checked separately against the real compression function /
/// stated as an assumption, see registry C17).
pub fn sha_finalize_precomputed(_s: Sha256) -> [u8; 32] {
    unsafe {
        G.rec_finalized += 1;
        if G.rec_len == 1 && G.rec[0] == 1 {
            return clvm_utils::PRECOMPUTED_HASHES[0].to_bytes();
        }
        if G.rec_len == 2 && G.rec[0] == 1 && G.rec[1] >= 1 && G.rec[1] < 24 {
            return clvm_utils::PRECOMPUTED_HASHES[G.rec[1] as usize].to_bytes();
        }
        let n = if G.rec_len < REC_CAP { G.rec_len } else { REC_CAP };
        model_digest(&G.rec, n)
    }
}

/// S7: `Vec::with_capacity(n)` -> `Vec::new()`. A capacity is a hint and does not change
/// `Vec` semantics; the 162-byte pre-allocation of `Message::make_key` would put the key
/// outside CBMC's field-sensitive range (every read symbolic, map shape path-dependent).
pub fn with_capacity_none<T>(_n: usize) -> Vec<T> {
    Vec::new()
}

/// S3 for the fast-forward harnesses: like `sha_finalize_precomputed`, and in addition the
/// stand-in atom for the singleton top layer program hashes to SINGLETON_TOP_LAYER_V1_1_HASH
/// (natively the real program does).
pub fn sha_finalize_ff(s: Sha256) -> [u8; 32] {
    unsafe {
        let m = crate::c19f::MOD_STAND_IN;
        if G.rec_len == 1 + m.len() && G.rec[0] == 1 {
            let mut eq = true;
            let mut i = 0;
            while i < m.len() {
                eq &= G.rec[1 + i] == m[i];
                i += 1;
            }
            if eq {
                G.rec_finalized += 1;
                return chia_puzzles::SINGLETON_TOP_LAYER_V1_1_HASH;
            }
        }
    }
    sha_finalize_precomputed(s)
}
