"""Properties not claimed, each with the reason (kept in sync with DESIGN.md §5)."""
HOOK_COMMITS = ["cf09ee52", "8fd24c77"]

_WIP = "not built"
NOT_APPLICABLE = {
    "C09": "not claimed: the CREATE_COIN scan of additions_and_removals is a private loop body (needs a slicing hook) and the other "
           "helpers sit behind run_program; no harness was built",
    "C07": "needs symbolic execution of clvmr::run_program (the legacy path is a CLVM program run by the interpreter); "
           "measured: parse_conditions with one concrete condition already exhausts 14 GB in CBMC; no bounded claim of value possible",
    "C08": "needs run_program, the back-reference serializer and intern_tree on symbolic bundles - same obstacle as C07; "
           "the byte-length ladder sub-statement is decided under C11",
    "C10": "state is clvmr's back-reference Serializer (hash-consed tree + HashMaps), allocator checkpoints and BLS aggregation "
           "over call histories; neither an inductive step (no tractable representation invariant) nor bounded histories fit CBMC",
    "C15": "verdicts are computed by blst (C/assembly behind FFI, invisible to Kani); cache is hashlink/hashbrown (measured intractable); "
           "the schedule quantifier is concurrency, which Kani does not model",
    "C16": "group arithmetic inside blst (FFI) and num-bigint reductions; no bound short of the full field width is meaningful",
    "C18": "2.7 kLoC over a byte blob plus three std hash indexes, recursion and SHA; property quantifies over operation histories; "
           "one hashbrown insert costs ~100 s of symbolic execution, no small inductive invariant found",
    "C20": "conversions take and return PyObjects through pyo3/CPython FFI; no Rust-level value to make symbolic",
}
