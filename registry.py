"""Per-property registry: which harnesses make up a check, and the static part of the
evidence (functions encoded, bounds, stubs, what is outside the claim).
Harness naming: `cNN_*` run in both tiers, `cNNt_*` in the thorough tier only."""

S1 = "S1 stub: std::hash::RandomState::new -> fixed keys (real one performs a getrandom syscall)"
S2 = "S2 stub: Vec::reserve(256 | 1 MiB) -> reserve_exact(8) (capacity hint of clvmr::Allocator::new_limited)"
S3 = ("S3 stub: chia_sha2::Sha256::{new,update,finalize} -> recorder + cheap digest model; assertions are on the "
      "hashed byte stream or independent of the hash function")

REGISTRY = {
    "C11": {
        "level_text": "Bounded proof (Kani/CBMC): for every u64 and every atom / integer in the stated length classes, each encoder "
                      "yields exactly the canonical minimal two's-complement form and each decoder inverts it or classifies the "
                      "overflow; decided by the SAT solver over the compiled real functions, not sampled.",
        "level_note": "Trusts Kani's MIR->goto translation, CBMC, CaDiCaL; Allocator capacity hints and RandomState stubbed (S1,S2); "
                      "SHA-256 replaced by a recorder for the coin-id preimage harness (S3). Atom lengths are enumerated, contents symbolic.",
        "quick": ["c11_"],
        "thorough": ["c11t_"],
        "min_quick": 45,
        "min_thorough": 50,
        "timeout_quick": 600,
        "timeout_thorough": 1800,
        "functions": [
            "chia_consensus::make_aggsig_final_message::u64_to_bytes",
            "chia_protocol::Coin::coin_id",
            "chia_consensus::solution_generator::calculate_generator_length (clvm_bytes_len)",
            "chia_consensus::sanitize_int::sanitize_uint",
            "clvmr::Allocator::{new,new_atom,new_u64,atom,atom_len,sexp}",
            "clvm_traits::encode_number",
            "clvm_traits::decode_number::<1|2|4|8|16>",
        ],
        "bounds": {
            "u64 values": "all 2^64 (fully symbolic)",
            "sanitize_uint atoms": "every atom of length 0..10 (max_size 8) and 0..6, 9 (max_size 4), contents symbolic, "
                                   "one harness per length; plus the pair case",
            "encode/decode round trip": "every value of u8,i8,u16,i16,u32,i32,u64,i64 (quick) and u128,i128 (thorough)",
            "decode_number totality": "all atoms of the listed lengths up to LEN+2 bytes",
            "unwind": "11..22 (loops over at most 20 bytes); unwinding assertions on",
        },
        "stubs": [S1, S2, S3],
        "outside": [
            "atoms longer than 10 bytes offered to sanitize_uint (classification is by the first two bytes and the length only)",
            "decode_number inputs longer than LEN+2 bytes (MAX_PADDING_BYTES=64 path)",
            "clvmr::Allocator::new_number (num-bigint) and the ToClvm/FromClvm trait plumbing around encode/decode_number "
            "(a harness for the default ClvmEncoder::encode_bigint exists, c11x_encode_bigint_*, but gave no verdict within 30 min: num-bigint "
            "arithmetic under CBMC; not registered)",
        ],
        "assumptions": ["spec::canon_u64 is the reference statement of the minimal two's-complement form "
                        "(self-checked by harness c11_spec_selfcheck and cross-stated in smt/canon.smt2)"],
    },
    "C01": {
        "level_text": "Bounded proof (Kani/CBMC) by decomposition: (a) opcode whitelist and list-termination helpers for all atoms of the "
                      "listed lengths; (b) argument decoding parse_args for each of the 35 opcodes + 2-byte opcodes over symbolic "
                      "argument counts, terminators, flag words and argument contents in the listed length classes, against an "
                      "independent rule table; (c) one inductive step of the real parse_conditions (real opcode parse, pre-charge, "
                      "dispatch and arm) per condition kind from a symbolic pre-state against the effect specification; "
                      "(d) the real validate_conditions on small symbolic states (cross-spend assertions: concurrent spend/puzzle, "
                      "coin/puzzle announcements, ephemeral rules, message keys and send/receive matching).",
        "level_note": "Trusts Kani/CBMC/CaDiCaL; stubs S1,S2,(S3 where hashing occurs); hook H1 (Vec-backed sets) and H3 (state accessors). "
                      "parse_args is stubbed in the arm harnesses (its decoding is (b)); the concretizing visitor re-stores an "
                      "asserted-equal Condition. The loops of parse_spends/parse_conditions that sequence the verified steps, lists "
                      "longer than the bounds and the 1024-announcement countdown are outside the claim.",
        "quick": ["c01_", "arm_ann_", "arm_self_"],
        "thorough": ["c01t_", "arm_"],
        "min_quick": 80,
        "min_thorough": 150,
        "timeout_quick": 900,
        "timeout_thorough": 2400,
        "functions": [
            "chia_consensus::opcodes::parse_opcode",
            "chia_consensus::validation_error::{first,rest,next,check_nil,atom}",
            "chia_consensus::conditions::parse_args (+ condition_sanitizers::{sanitize_hash,parse_amount,sanitize_announce_msg,sanitize_message_mode}, sanitize_int::sanitize_uint)",
            "chia_consensus::messages::{SpendId::parse (all 8 commitment shapes, SEND and RECEIVE), SpendId::from_self, Message::make_key}",
            "chia_consensus::conditions::parse_conditions::<CV<EmptyVisitor>> (one-condition list; every arm)",
            "chia_consensus::conditions::validate_conditions",
        ],
        "bounds": {
            "opcode atoms": "all atoms of 0..4 bytes, and a pair",
            "argument lists": "0..3 arguments (0..4 for CREATE_COIN), terminator nil or non-nil atom, flag word fully symbolic (32 bits)",
            "hash arguments": "atoms of 31/32/33 bytes (32-byte content symbolic) or a pair",
            "key / message arguments": "47/48/49 bytes; 0/3/1024/1025 bytes (long messages zero-filled) or a pair",
            "integer arguments": "quick: heap-backed atom of width+1 bytes, content symbolic; thorough: also 0, width, 10 bytes and a pair",
            "CREATE_COIN memo": "absent / atom / list whose first element is an atom of 0,1,32,33 bytes or a pair; rest nil or not",
            "SEND/RECEIVE_MESSAGE": "mode: pass-through 3 bits symbolic, spelled-out 3 bits per instance (all 8 shapes; quick: each shape with one "
                                    "opcode, thorough: both); message 3 symbolic bytes; id-args 0..need+1 present, hash positions a 32-byte "
                                    "(symbolic) or 31-byte atom, amount atom of 9 bytes (thorough: 0, 1, 8); mode atom: any integer < 2^20, a 5-byte atom, a pair",
            "arm pre-state": "all scalar and Option fields of SpendConditions/SpendBundleConditions symbolic under the representation "
                             "invariant of DESIGN.md s.8; sets hold 0..1 symbolic element; coin ids fixed unless the arm compares them",
            "unwind": "4..50 with unwinding assertions",
        },
        "stubs": [S1, S2, S3, "H1 Vec-backed HashMap/HashSet shim", "H3 verif_view accessors",
                  "parse_args replaced by a fixed-variant producer in arm_* harnesses",
                  "concretizing visitor CV (asserts equality, then re-stores the same Condition)"],
        "outside": [
            "the while-loops of parse_spends / parse_conditions sequencing the verified steps; lists longer than the bounds",
            "the per-spend 1024 announcement countdown (needs 1025 conditions)",
            "MAX_SPENDS_PER_BLOCK counting (LIMIT_SPENDS)",
            "BLS point decoding inside to_key (blst FFI; modelled under C05)",
            "integer atoms stored inside the NodePtr are exercised through sanitize_uint in C11, not again per opcode",
        ],
        "assumptions": ["kh/src/arm.rs::spec_step and the per-opcode rule tables in kh/src/c01.rs are the reference statement of the "
                        "consensus rules (written from crates/chia-consensus/README.md and the opcode comments)"],
    },
    "C02": {
        "level_text": "Bounded proof (Kani/CBMC): the real process_single_spend (coin id = H(parent||puzzle hash||amount atom), double-spend "
                      "detection, removal total, malformed attributes), the real CREATE_COIN / RESERVE_FEE arms of parse_conditions "
                      "(duplicate outputs, addition total in 128 bits, checked fee sum) and the value check of the real "
                      "validate_conditions, each for all values within the stated bounds.",
        "level_note": "SHA-256 replaced by a recorder/digest model (S3): statements are about the hashed byte stream and about equality of "
                      "ids, not about SHA-256 itself. 'reported puzzle hash = tree hash of the revealed puzzle' lives behind run_program "
                      "and is outside. Puzzle hashes / parent ids: first and last byte symbolic, rest fixed.",
        "quick": ["c02_", "arm_value_", "pss_", "c11_coin_id_preimage"],
        "thorough": ["psst_"],
        "min_quick": 13,
        "min_thorough": 30,
        "timeout_quick": 1200,
        "timeout_thorough": 2400,
        "functions": [
            "chia_consensus::conditions::process_single_spend::<CV<EmptyVisitor>> (+ compute_coin_id, sanitize_hash, parse_amount)",
            "chia_consensus::conditions::parse_conditions (CreateCoin, ReserveFee arms)",
            "chia_consensus::conditions::validate_conditions (MintingCoin / ReserveFeeConditionFailed head)",
            "chia_protocol::Coin::coin_id (preimage, under C11)",
        ],
        "bounds": {
            "amount atoms": "heap-backed atoms of 1,2,9 bytes (quick) and 4,5,8,10 (thorough), content symbolic; NodePtr-embedded small "
                            "integers at the concrete boundary values 0,1,0x7f,0x80,0x7fff,0x8000,0x7fffff,0x800000,0x3ffffff",
            "hashes": "parent id / puzzle hash: bytes 0 and 31 symbolic; malformed lengths 0,31,33",
            "state": "bundle with 0 or 1 previously spent coin (its id = the new id xor one symbolic byte), removal/addition totals "
                     "symbolic below 2^100, reserve fee and costs symbolic 64 bit",
            "paths": "one harness per path (fresh / duplicate / cost exceeded / bad amount): the path condition is assumed, data symbolic",
        },
        "stubs": [S1, S2, S3, "H1 shim", "H3 accessors", "parse_args stub + concretizing visitor in arm_value_*"],
        "outside": ["bundles with thousands of spends (induction over spends is argued in DESIGN.md, not unrolled)",
                    "puzzle-hash = tree hash of revealed puzzle (run_block_generator2 / run_spendbundle, needs run_program)"],
        "assumptions": ["collision resistance of SHA-256 is not used: id equality is what the code tests"],
    },
    "C03": {
        "level_text": "Bounded proof (Kani/CBMC), inductive: each lock/birth arm of the real parse_conditions equals the fold of the "
                      "specification (arm_lock_*); for the real check_time_locks, every summary under the invariant, every new assertion "
                      "and every chain state at full 32/64-bit width: check(fold(S,h)) == check(S) && holds(h), and a parse-time "
                      "'impossible' rejection implies no chain state satisfies S and h (c03_fold_*); the checker equals the conjunction "
                      "of the per-assertion definitions with saturating sums (c03_checker_is_conjunction).",
        "level_note": "One spend / one coin record per query (the checker treats spends independently); H1 shim for the coin-record map; "
                      "argument decoding (negative / oversized -> tautology or failure) is part of C01's parse_args harnesses.",
        "quick": ["c03_", "arm_lock_", "c01_args_assert_seconds", "c01_args_assert_height", "c01_args_assert_before", "c01_args_assert_my_birth"],
        "thorough": [],
        "min_quick": 36,
        "min_thorough": 36,
        "timeout_quick": 900,
        "timeout_thorough": 1800,
        "functions": [
            "chia_consensus::check_time_locks::check_time_locks",
            "chia_consensus::conditions::parse_conditions (10 lock/birth arms + SkipRelativeCondition)",
            "chia_consensus::conditions::validate_conditions (absolute impossible constraints)",
            "chia_consensus::owned_conditions::{OwnedSpendBundleConditions::from, OwnedSpendConditions::from}",
        ],
        "bounds": {"values": "all ten summary fields, the new argument and the chain state (height u32, timestamp u64, coin confirmed "
                             "index u32, coin timestamp u64) fully symbolic", "spends": "1 spend, 1 coin record",
                   "unwind": "4..34"},
        "stubs": [S1, S2, "H1 shim", "H3 accessors", "parse_args stub + concretizing visitor in arm_lock_*"],
        "outside": ["legacy nowrap=false mode beyond 'differs only when a sum overflows'",
                    "ephemeral-coin rule across two spends (under C01 validate_conditions harnesses)"],
        "assumptions": ["kh/src/c03.rs::holds is the arithmetic definition of each assertion (saturating sums)"],
    },
    "C04": {
        "level_text": "Bounded proof (Kani/CBMC) of the condition/spend cost half: the per-opcode pre-charge of the real parse_conditions "
                      "with symbolic flags and remaining cost (fails with CostExceeded iff remaining < charge; remaining, bundle and "
                      "per-spend condition cost move by exactly the charge), the Softfork arm, SPEND_COST in process_single_spend, the "
                      "unknown-opcode path, the 256-entry unknown-condition cost table against an exact-rational recomputation, "
                      "subtract_cost, and the 3-step countdown lemma (succeeds from limit L iff L >= total).",
        "level_note": "CLVM execution cost, byte cost and interned_vbytes need run_program / intern_tree on symbolic programs and are outside "
                      "(stated in DESIGN.md); the fixed charges are written out independently in kh/src/arm.rs::spec_precharge.",
        # one arm per pre-charge class in the quick tier: generic 200 (arm_cost_skip_remark), message/announcement 700
        # (arm_ann_create_coin_ann, arm_msg_send), CREATE_COIN (arm_value_create_coin), AGG_SIG (arm_sig_me_m32)
        "quick": ["c04_", "arm_cost_", "pss_costfail", "pss_fresh_l9", "arm_ann_create_coin_ann", "arm_msg_send",
                  "arm_value_create_coin", "arm_sig_me_m32"],
        "thorough": ["arm_value_", "arm_ann_", "arm_msg_", "arm_sig_", "arm_lock_", "arm_self_", "psst_costfail"],
        "min_quick": 17,
        "min_thorough": 20,
        "timeout_quick": 900,
        "timeout_thorough": 1800,
        "functions": [
            "chia_consensus::opcodes::compute_unknown_condition_cost",
            "chia_consensus::conditions::parse_conditions (pre-charge match, Softfork arm, unknown-opcode path)",
            "chia_consensus::conditions::process_single_spend (SPEND_COST)",
            "chia_consensus::run_block_generator::subtract_cost",
        ],
        "bounds": {"opcode": "all u16 for the table; pre-charge per opcode class through the arm harnesses", "cost": "u64 symbolic",
                   "flags": "32-bit word symbolic"},
        "stubs": [S1, S2, S3, "H1 shim", "H3 accessors", "parse_args stub + concretizing visitor"],
        "outside": ["CLVM execution cost, byte cost, INTERNED_GENERATOR vbytes (need run_program / intern_tree)",
                    "total over a whole block = sum of the verified per-condition charges (composition lemma, checked for 3 steps)"],
        "assumptions": ["gen/cost_table.py (exact rational 100*(17/16)^i truncated to 3 significant digits) is the cost table"],
    },
    "C05": {
        "level_text": "Bounded proof (Kani/CBMC) of the message-binding half: each of the 8 AGG_SIG arms of the real parse_conditions "
                      "lists (key, raw message) in the right per-spend / unsafe list and hands the verifier exactly "
                      "(key, message || coin attributes selected by the opcode || that opcode's domain constant) - nothing when "
                      "signature checking is off; malformed and infinity keys are rejected; AGG_SIG_UNSAFE messages ending in any of "
                      "the 7 domain constants are rejected; make_aggsig_final_message yields the same text; validate_signature passes "
                      "exactly pkm_pairs in order to either verifier and fails iff its verdict is false.",
        "level_note": "BLS is modelled (S4): a key is an opaque 48-byte token, 'valid' and 'infinity' are predicates of its first byte, the "
                      "verifier is a recorder with a nondeterministic verdict. Validity of the pairing equation, cache transparency "
                      "and tampering of signature bytes are blst (FFI) and outside (see C15).",
        "quick": ["c05_", "arm_sig_", "c11_u64_to_bytes", "c11_coin_id_preimage"],
        "thorough": ["c01_args_agg_sig"],
        "min_quick": 22,
        "min_thorough": 30,
        "timeout_quick": 1200,
        "timeout_thorough": 1800,
        "functions": [
            "chia_consensus::conditions::parse_conditions (8 AGG_SIG arms, to_key, check_agg_sig_unsafe_message)",
            "chia_consensus::make_aggsig_final_message::{make_aggsig_final_message,u64_to_bytes}",
            "chia_consensus::conditions::validate_signature",
        ],
        "bounds": {"key": "48 bytes symbolic", "message": "heap-backed atom of 0,1,3,31,32,33,34 bytes symbolic (per instance)",
                   "coin amount": "concrete boundary values 0,1,7,0x80,0x8000,2^64-1 (u64_to_bytes is proved for all u64 in C11)",
                   "coin ids": "fixed in the arm harnesses; parent id and puzzle hash fully symbolic in the helper harnesses",
                   "verifier": "2 (key,message) pairs", "flags": "32-bit word symbolic", "unwind": "60..130"},
        "stubs": [S1, S2, S3, "S4 BLS model: PublicKey::{from_bytes,from_bytes_unchecked,is_inf,to_bytes}, aggregate_verify, BlsCache::aggregate_verify; "
                  "key classes: 0xEE.. not a curve point, 0xC0.. infinity, K_OFF_SUBGROUP (a real on-curve point outside G1: rejected by the "
                  "checked decoder only), everything else valid",
                  "H1 shim", "H3 accessors", "parse_args stub + concretizing visitor"],
        "outside": ["pairing validity, signature/key tampering detection, cache transparency (blst FFI, C15)",
                    "validate_clvm_and_signature's pairing path (needs run_program)"],
        "assumptions": ["kh/src/c05.rs::spec_final_message is the table of coin attributes and domain constants per opcode"],
    },
    "C19": {
        "level_text": "Bounded proof (Kani/CBMC) of the flag and fingerprint half: MempoolVisitor::new_spend / condition (every condition "
                      "kind, any prior flags, any counter) / post_spend (0..2 created coins, 128-bit sum) clear exactly the documented "
                      "eligibility flags, so a dedup-eligible spend has no signature or message condition and creates at least as much "
                      "value as it consumes; compute_puzzle_fingerprint hashes an injective encoding (u32 length prefix per atom, fixed "
                      "arity per opcode, hint-or-empty) of exactly what the real parse_args reports, and refuses signature/message "
                      "conditions.",
        "level_note": "fast_forward_singleton: 'runs successfully against the new coin' executes CLVM (needs run_program); its refusal "
                      "conditions and the rewrite run no CLVM, and a harness for them exists (kh/src/c19f.rs, c19x_ff_*: genuine scenario built "
                      "forwards, every guarded field perturbed by a symbolic delta, accepted <=> genuine) but gave no verdict within 30 min / "
                      "8 GB and is NOT registered - fast-forward stays outside the claim. "
                      "The SHA recorder (S3) makes the fingerprint's byte stream observable; collision resistance is not used.",
        "quick": ["c19_"],
        "thorough": ["c19t_"],
        "min_quick": 9,
        "min_thorough": 12,
        "timeout_quick": 900,
        "timeout_thorough": 1800,
        "functions": [
            "chia_consensus::conditions::MempoolVisitor::{new_spend,condition,post_spend}",
            "chia_consensus::puzzle_fingerprint::{compute_puzzle_fingerprint,hash_atom_list}",
            "chia_consensus::conditions::parse_args (CREATE_COIN hint rule, cross-checked)",
        ],
        "bounds": {"condition kinds": "all 36 variants, payloads symbolic", "flags/counter": "u32 / i32 symbolic",
                   "outputs": "0..2 created coins (3 ran out of memory), amounts symbolic u64",
                   "fingerprint": "one condition per list; CREATE_COIN with memo absent / atom / list whose first element is an atom of "
                                  "0,1,32,33 bytes or a pair; amount atom 2 bytes (quick), 0 and 8 (thorough); one-argument opcodes 61,73,80"},
        "stubs": [S1, S2, S3, "H1 shim", "H3 MempoolVisitor::verif_with_counter"],
        "outside": ["fast_forward_singleton: refusal conditions and rewrite (harness c19x_ff_* did not finish), and running the rewritten solution (CLVM)",
                    "MempoolVisitor::post_process (ephemeral FF spends; needs coin ids of outputs)",
                    "lists with several conditions (the encoding is per condition and concatenated)"],
        "assumptions": [],
    },
    "C13": {
        "level_text": "Bounded proof (Kani/CBMC): for each listed type and EVERY byte string of the listed lengths, untrusted decoding "
                      "accepted => re-encoding reproduces exactly those bytes, trusted decoding yields the same value, and the streaming "
                      "hash consumes exactly the encoding (for version-2 proofs of space: the encoding with the proof replaced by its "
                      "32-byte commitment); byte strings of a wrong length, with non-0/1 bool/Option prefixes, inconsistent length "
                      "prefixes, unknown versions or a v2 proof with both/neither pool key and contract are rejected.",
        "level_note": "Buffer lengths are enumerated per instance (all contents symbolic for primitives, combinators and Coin/CoinState; "
                      "for sequences the 4-byte length prefix is fixed per instance; for ProofOfSpace the layout-deciding prefix bytes are "
                      "fixed per instance, scalar fields / proof / hash bytes symbolic, key bodies fixed). SHA-256 -> recorder (S3), BLS "
                      "keys -> tokens (S4), proof-of-space quality -> nondeterministic Option (S6), format! -> empty (S5). The ~120 further "
                      "derived protocol structs use the same macro and are not re-run; FullBlock/UnfinishedBlock are outside.",
        "quick": ["c13_"],
        "thorough": ["c13t_"],
        "cbmc_args": ["--max-field-sensitivity-array-size", "256"],
        "min_quick": 42,
        "min_thorough": 52,
        "timeout_quick": 1200,
        "timeout_thorough": 2400,
        "functions": [
            "chia_traits::Streamable::{from_bytes,from_bytes_unchecked,to_bytes,hash} and parse/stream/update_digest for u8..i128, bool, (), "
            "Option<T>, (T,U), (T,U,V), (T,U,V,W), [T;N], Vec<T>, String",
            "chia_protocol::{BytesImpl<N>, Bytes, Coin, CoinState} (derive macro chia_streamable_macro)",
            "chia_protocol::ProofOfSpace::{parse,stream,update_digest} (hand-written versioned codec)",
            "chia_protocol::SubEpochData + chia_protocol::utils::{parse,stream,update_digest} (hand-written: two optionals packed into one "
            "prefix byte; the same helpers serve SubEpochSummary and RewardChainBlock)",
        ],
        "bounds": {"primitives/combinators": "all byte strings of the type's encoding length(s) and of neighbouring wrong lengths",
                   "sequences": "6..8-byte buffers, length prefix in {0, right, right-1, right+1, 2^32-1}",
                   "packed optionals": "SubEpochData: byte strings of 75 (quick: both optionals present / Some + second present) and 35, 36, 43, 67 "
                                       "bytes (thorough); every prefix / integer / boundary byte symbolic, the inside of the 32-byte hash fields fixed",
                   "ProofOfSpace": "lengths 87/119/120/122/123/135/138/170/90 (v1/v2 x pool key / contract / both / neither, proof of 0..1 "
                                   "bytes), prefixes perturbed to 2, version 2/3, 0x83",
                   "unwind": "36..180"},
        "stubs": [S1, S3, "S4 BLS token model (PublicKey::{from_bytes,from_bytes_unchecked,to_bytes})", "S5 std::fmt::format -> empty",
                  "S6 ProofOfSpace::quality_string -> fixed Some(..) (None only in the C14 harness)"],
        "outside": ["~120 further derived structs (same macro), FullBlock / UnfinishedBlock / RewardChainBlock (did not fit: buffers of several hundred bytes; "
                    "SubEpochSummary and RewardChainBlock share the packed-optional helpers covered through SubEpochData; SubEpochSummary's own "
                    "harnesses (67..107-byte buffers) ran out of memory / time and were removed)",
                    "real BLS point canonicity (C16)", "element counts > 2, String beyond 2 bytes"],
        "assumptions": [],
    },
    "C14": {
        "level_text": "Bounded proof (Kani/CBMC) with Kani's panic / arithmetic-overflow / bounds / unwrap checks on: both decoders, "
                      "re-encode and hash return for every byte string of the listed lengths; an attacker-chosen 32-bit length prefix "
                      "neither loops past the buffer (unwinding assertion) nor pre-allocates more than 2 MiB (capacity observed through "
                      "a Vec::with_capacity probe); trailing / missing bytes are rejected. One genuine defect is recorded: hashing a "
                      "decoded version-2 proof of space whose proof does not validate panics (known_findings.json).",
        "level_note": "Same harnesses as C13 (subset in quick) plus c14_*; stubs S1,S3,S4,S5,S6. Peak allocation and run time as such are not "
                      "measured; Program fields (CLVM deserializer) are outside.",
        "quick": ["c14_", "c13_vec", "c13_bytes", "c13_opt", "c13_tuple", "c13_pos_bad", "c13_pos_v2_both", "c13_pos_v2_neither",
                  "c13_bool", "c13_u32", "c13_coin"],
        "thorough": ["c13_", "c13t_"],
        "cbmc_args": ["--max-field-sensitivity-array-size", "256"],
        "min_quick": 20,
        "min_thorough": 48,
        "timeout_quick": 900,
        "timeout_thorough": 2400,
        "functions": [
            "chia_traits::streamable::read_bytes, Vec<T>::parse (length prefix, 2 MiB pre-allocation cap)",
            "chia_traits::Streamable::{from_bytes,from_bytes_unchecked,to_bytes,hash} for the C13 types",
            "chia_protocol::ProofOfSpace::{parse,update_digest}",
        ],
        "bounds": {"buffers": "as C13; Vec<u32> from all 10-byte buffers (length prefix fully symbolic)"},
        "stubs": [S1, S3, "S4", "S5", "S6 (quality None)", "Vec::with_capacity -> capacity probe (c14_vec_length_prefix_bounded)"],
        "outside": ["Program::parse / deep CLVM nesting (clvmr deserializer)", "time and peak allocation as measurements",
                    "Signature / G1 decoding inside blst"],
        "assumptions": [],
    },
    "C12": {
        "level_text": "Bounded proof (Kani/CBMC). Roots: compute_merkle_set_root and MerkleSet::from_leafs both equal the reference "
                      "definition of the collapsed binary-trie hash, written out per leaf configuration (0, 1, 2, 3 leaves; split at depth "
                      "0 / 1 / 2; one-sided levels with and without an explicit EMPTY sibling; several input orders; duplicates). "
                      "Structure: which byte strings parse as proofs (single node: EMPTY / leaf / "
                      "truncated, unknown tags, missing and trailing bytes), the leaf-position audit (a revealed leaf is accepted only "
                      "on the branch spelled by its own leading bit, for every combination of leading bits of one and two leaves), "
                      "what a parsed tree states about a queried item (included iff equal to a revealed leaf on its path; a truncated "
                      "side proves nothing), and that validate_merkle_proof refuses every root other than the proof's own.",
        "level_note": "Hash function: S3 model - the statements hold for any hash function. Soundness against forged proofs is reduced to "
                      "this audit plus SHA-256 collision resistance (assumption, DESIGN.md C12). Tag bytes and the leading byte of each "
                      "hash are fixed per instance (symbolic ones make the parser's stack of bit vectors path-dependent: > 12 GB); the "
                      "rest of each hash (bytes 1 and 31) and the queried item are symbolic. Roots and honest proofs: leading byte of every leaf "
                      "fixed per instance (the bits the radix sort branches on), bytes 1 and 31 symbolic, input order symbolic; expected "
                      "roots are written from the definition, not computed by the code under test.",
        "quick": ["c12_"],
        "thorough": ["c12t_"],
        "cbmc_args": ["--max-field-sensitivity-array-size", "256"],
        "min_quick": 24,
        "min_thorough": 30,
        "timeout_quick": 900,
        "timeout_thorough": 2400,
        "functions": [
            "chia_consensus::merkle_tree::MerkleSet::{from_proof (deserialize_proof_impl), get_root, generate_proof (generate_proof_impl, other_included), from_leafs (generate_merkle_tree_recurse)}",
            "chia_consensus::merkle_set::{compute_merkle_set_root, radix_sort, hash}, merkle_tree::pad_middles_for_proof_gen",
            "chia_consensus::merkle_tree::validate_merkle_proof",
            "chia_consensus::merkle_tree::get_bit, merkle_set::hash",
        ],
        "bounds": {"leaf sets": "0, 1 leaf (fully symbolic bytes 0/31); 2 leaves splitting at depth 0, 1 (both left) and 2 (both right); 3 leaves "
                                "{0x20,0x60,0xa0}, {0x10,0x30,0x50} (left-heavy: EMPTY sibling), {0x90,0xb0,0xd0} (right-heavy); [l,l] duplicates "
                                "(thorough, 256 levels); sorted, swapped and rotated input orders (one per instance)",
                   "proof shapes": "1 node; MIDDLE with two leaves; MIDDLE with one EMPTY side; MIDDLE with one TRUNCATED side "
                                   "(at most 1 MIDDLE node, proofs of 1..68 bytes)",
                   "hashes": "leading byte fixed per instance (both values of the audited bit), bytes 1 and 31 symbolic",
                   "unwind": "40..70"},
        "stubs": [S3],
        "outside": ["honest-proof completeness (generate_proof on a from_leafs tree, then validate_merkle_proof): the round trip in one query "
                    "exceeded 12 GB / 15 min even for a single leaf (harnesses kept as c12x_*, not registered)",
                    "sets of more than 3 leaves; leaves that share more than 2 leading bits (deep one-sided chains), except the duplicate pair",
                    "forged proofs with 2 or more MIDDLE levels", "cryptographic soundness (collision resistance)"],
        "assumptions": ["SHA-256 collision resistance for the step 'same root => same node hashes'"],
    },
    "C17": {
        "level_text": "Bounded proof (Kani/CBMC): for each listed tree (every leaf kind around the precomputed table's edges, pairs, a DAG "
                      "with a shared inner pair, two trees through one memo cache in both orders) the plain routine, the memoizing "
                      "routine with a fresh cache and with a warm cache all return the recursive definition "
                      "H(1||atom) / H(2||H(l)||H(r)), for every hash function H that maps the 24 small-atom preimages to the baked "
                      "table; the two primitives hash prefix 1 / prefix 2 followed by exactly their arguments; curry_tree_hash(P, A1..An) "
                      "for n = 0 (quick) and 1, 2 (thorough) and symbolic leaf hashes equals the tree-hash definition written out for "
                      "(a (q . P) (c (q . A1) (c (q . A2) 1))), CurriedProgram::to_clvm builds exactly that shape, and (thorough) "
                      "curry_tree_hash equals tree_hash of the hand-built curried program; tree_hash_from_bytes on serializations with "
                      "and without a back-reference equals tree_hash of what clvmr's deserializer yields (thorough).",
        "level_note": "S3 recorder with a digest that returns PRECOMPUTED_HASHES on 0x01 / 0x01 i (i<24). That the table holds the real "
                      "SHA-256 digests is attempted with the real software compression function in the thorough tier "
                      "(c17t_precomputed_table_real_sha); tree_hash_from_bytes (back-reference deserializer) and curry_tree_hash are outside.",
        "quick": ["c17_"],
        "thorough": ["c17t_"],
        "min_quick": 14,
        "min_thorough": 18,
        "timeout_quick": 1200,
        "timeout_thorough": 3000,
        "functions": [
            "clvm_utils::{tree_hash, tree_hash_cached, tree_hash_atom, tree_hash_pair}",
            "clvm_utils::TreeCache::{visit_tree, get, insert, should_memoize}",
            "clvm_utils::curry_tree_hash, clvm_utils::CurriedProgram::to_clvm (+ clvm_traits::clvm_curried_args)",
            "clvm_utils::tree_hash_from_bytes (thorough; clvmr::serde::node_from_bytes_backrefs is the reference for what the bytes denote)",
        ],
        "bounds": {"trees": "up to 3 pairs; leaves: nil, 1, 23, 24, 200 (NodePtr-embedded), heap atoms of 1 and 3 symbolic bytes",
                   "cache histories": "2 trees x both orders, each hashed twice", "unwind": "40..110"},
        "stubs": [S1, S2, "S3 with precomputed-table-aware digest"],
        "outside": ["tree_hash_from_bytes beyond the two 9/11-byte serializations of the thorough tier", "curry_tree_hash with more than 2 arguments",
                    "deep / wide trees", "PRECOMPUTED_HASHES == real SHA-256 unless c17t_precomputed_table_real_sha finishes"],
        "assumptions": ["PRECOMPUTED_HASHES[i] == SHA-256(0x01 || i) (24 constants)"],
    },
    "C06": {
        "level_text": "Two halves. ORDER, by composition: (i) every arm of the real parse_conditions equals the effect specification "
                      "arm::spec_step from an arbitrary pre-state (arm_* harnesses, real code), (ii) spec_step commutes - for every pre-state "
                      "under the representation invariant, every two conditions of any kinds and payloads (same element or not) and every "
                      "flag word, both orders give the same verdict and, when accepted, identical summary scalars, collection sizes and "
                      "remaining cost (c06_order_spec_step_commutes, decided by the solver at full width); hence swapping adjacent "
                      "conditions of a spend never changes acceptance, cost or any aggregate. STRICT SUBSET, relational: "
                      "the real parse_args runs twice on the same symbolic "
                      "argument list - once with an arbitrary subset of {NO_UNKNOWN_CONDS, STRICT_ARGS_COUNT, LIMIT_SPENDS} added to "
                      "arbitrary other flags, once with those three cleared - and 'accepted strictly => accepted leniently with the "
                      "identical decoded condition' is asserted, for representatives of every argument-shape group "
                      "(hash, message, key+message, integer 4/8 bytes, CREATE_COIN with list and atom memos, SOFTFORK, "
                      "ASSERT_EPHEMERAL, REMARK, a 2-byte opcode).",
        "level_note": "Only the decoding step is relational; the unknown-opcode path of parse_conditions under NO_UNKNOWN_CONDS is in "
                      "C04 (arm_cost_unknown_opcode_*). The order half is compositional: the commutation itself is decided over the "
                      "specification (kh/src/arm.rs::spec_step), the link to the real code is the per-arm equality; error CODES may differ "
                      "between orders (the property speaks of the verdict). Permutation of SPENDS (set-based cross-spend matching in "
                      "validate_conditions, DoubleSpend) and LIMIT_SPENDS counting are outside.",
        # order half by composition: spec_step commutes (c06_order_spec_step_commutes) + every arm of the real
        # parse_conditions equals spec_step (arm_*; quick tier: the folding / summing arms, thorough: all arms)
        "quick": ["c06_", "arm_lock_", "arm_value_"],
        "thorough": ["arm_"],
        "min_quick": 27,
        "min_thorough": 50,
        "timeout_quick": 1500,
        "timeout_thorough": 2400,
        "functions": ["chia_consensus::conditions::parse_args (run twice per query)",
                      "chia_consensus::conditions::parse_conditions (arms, one inductive step each, against spec_step)",
                      "kh::arm::spec_step (specification; commutation decided over it)"],
        "bounds": {"argument lists": "0..3 arguments, nil / non-nil terminator, menus as in C01", "flags": "both flag words symbolic",
                   "opcodes": "61, 70, 76, 1, 0x1234, 62, 50, 49, 52, 82, 85, 90, 51"},
        "stubs": [S1, S2, "H1 shim", "H3 accessors", "parse_args stub + concretizing visitor in arm_* harnesses"],
        "outside": ["permutation of spends (cross-spend matching is set-based; not run with two spends here)", "LIMIT_SPENDS counting in parse_spends",
                    "which error code is reported when both orders reject", "the positionally defined fast-forward eligibility (excluded by the property)",
                    "the opcodes not listed (same code shape as their group representative)"],
        "assumptions": [],
    },
}
