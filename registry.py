"""Per-property registry: which harnesses make up a check, and the static part of the
evidence (functions encoded, bounds, stubs, what is outside the claim).
Harness naming: `cNN_*` run in both tiers, `cNNt_*` in the thorough tier only."""

S1 = "S1 stub: std::hash::RandomState::new -> fixed keys (real one performs a getrandom syscall)"
S2 = "S2 stub: Vec::reserve(256 | 1 MiB) -> reserve_exact(8) (capacity hint of clvmr::Allocator::new_limited)"
S3 = ("S3 stub: chia_sha2::Sha256::{new,update,finalize} -> recorder + cheap digest model; assertions are on the "
      "hashed byte stream or independent of the hash function")

REGISTRY = {
    "C11": {
        "level_text": "Bounded proof (Kani/CBMC): for every u64 and every atom / integer in the stated length classes, each encoder "
                      "yields exactly the canonical minimal two's-complement form and each decoder inverts it or classifies the "
                      "overflow; decided by the SAT solver over the compiled real functions, not sampled.",
        "level_note": "Trusts Kani's MIR->goto translation, CBMC, CaDiCaL; Allocator capacity hints and RandomState stubbed (S1,S2); "
                      "SHA-256 replaced by a recorder for the coin-id preimage harness (S3). Atom lengths are enumerated, contents symbolic.",
        "quick": ["c11_"],
        "thorough": ["c11t_"],
        "min_quick": 45,
        "min_thorough": 50,
        "timeout_quick": 600,
        "timeout_thorough": 1800,
        "functions": [
            "chia_consensus::make_aggsig_final_message::u64_to_bytes",
            "chia_protocol::Coin::coin_id",
            "chia_consensus::solution_generator::calculate_generator_length (clvm_bytes_len)",
            "chia_consensus::sanitize_int::sanitize_uint",
            "clvmr::Allocator::{new,new_atom,new_u64,atom,atom_len,sexp}",
            "clvm_traits::encode_number",
            "clvm_traits::decode_number::<1|2|4|8|16>",
        ],
        "bounds": {
            "u64 values": "all 2^64 (fully symbolic)",
            "sanitize_uint atoms": "every atom of length 0..10 (max_size 8) and 0..6, 9 (max_size 4), contents symbolic, "
                                   "one harness per length; plus the pair case",
            "encode/decode round trip": "every value of u8,i8,u16,i16,u32,i32,u64,i64 (quick) and u128,i128 (thorough)",
            "decode_number totality": "all atoms of the listed lengths up to LEN+2 bytes",
            "unwind": "11..22 (loops over at most 20 bytes); unwinding assertions on",
        },
        "stubs": [S1, S2, S3],
        "outside": [
            "atoms longer than 10 bytes offered to sanitize_uint (classification is by the first two bytes and the length only)",
            "decode_number inputs longer than LEN+2 bytes (MAX_PADDING_BYTES=64 path)",
            "clvmr::Allocator::new_number (num-bigint) and the ToClvm/FromClvm trait plumbing around encode/decode_number",
        ],
        "assumptions": ["spec::canon_u64 is the reference statement of the minimal two's-complement form "
                        "(self-checked by harness c11_spec_selfcheck and cross-stated in smt/canon.smt2)"],
    },
}
