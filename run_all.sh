#!/bin/bash
# dev helper: run every registered check (quick tier by default) one after the other
cd /verif
tier=${1:-quick}; shift
ids=${@:-C11 C12 C14 C13 C19 C03 C04 C02 C17 C06 C05 C01}
mkdir -p .work/runall
for id in $ids; do
  s=$(date +%s)
  ./check $id --tier $tier > .work/runall/$id-$tier.out 2>&1
  rc=$?
  echo "$id $tier rc=$rc wall=$(( $(date +%s) - s ))s $(tail -1 .work/runall/$id-$tier.out)" | tee -a .work/runall/summary.txt
done
